package main

import (
	"encoding/binary"
	"fmt"
	"hash/fnv"
	"math"
	"regexp"
	"runtime"
	"strings"

	"github.com/nulab/autog"
	"github.com/nulab/autog/graph"
	imonitor "github.com/nulab/autog/internal/monitor"
	"github.com/nulab/autog/internal/phase1"
	"github.com/nulab/autog/internal/phase2"
	"github.com/nulab/autog/internal/verifrt"
)

// Input is one state of the operation-sequence search: a history of AddEdge operations in canonical form
// (nodes numbered in order of first occurrence), optionally with explicit node names.
type Input struct {
	E     []int    `json:"e"`
	Names []string `json:"names,omitempty"`
}

func (in Input) N() int {
	n := 0
	for _, x := range in.E {
		if x+1 > n {
			n = x + 1
		}
	}
	return n
}

func (in Input) M() int { return len(in.E) / 2 }

func (in Input) Name(i int) string {
	if in.Names != nil {
		return in.Names[i]
	}
	return nodeNames[i]
}

var nodeNames = func() []string {
	s := make([]string, 4096)
	for i := range s {
		s[i] = fmt.Sprintf("n%d", i)
	}
	return s
}()

func (in Input) Edges() [][]string {
	es := make([][]string, in.M())
	for i := range es {
		es[i] = []string{in.Name(in.E[2*i]), in.Name(in.E[2*i+1])}
	}
	return es
}

func (in Input) Clone() Input {
	return Input{E: append([]int(nil), in.E...), Names: append([]string(nil), in.Names...)}
}

func (in Input) String() string { return fmt.Sprint(in.E) }

// Cfg is one configuration of Layout.
type Cfg struct {
	P1    int     `json:"p1"`           // 0 greedy, 1 dfs, 2 greedy with enumerated random picks
	P2    int     `json:"p2"`           // 0 network simplex, 1 longest path
	P3    int     `json:"p3,omitempty"` // 0 weighted median (the production orderer), 1 no ordering (documented as a testing aid)
	P4    int     `json:"p4"`           // 0 sink coloring, 1 valign, 2 packright, 3 network simplex, 4 b&k balanced, 5..8 b&k forced 0..3
	P5    int     `json:"p5"`           // 0 noop, 1 straight, 2 polyline, 3 ortho, 4 splines
	SZ    int     `json:"sz"`           // 0 none, 1 fixed 10x6, 2 table (all nodes), 3 table (even nodes), 4 table (even nodes) over fixed, 5 widths from WMask over {2,30} + table heights, 6 widths from WMask base 3 over {2,10,30}
	Rot   int     `json:"rot,omitempty"`
	WMask int     `json:"wmask,omitempty"`
	NS    float64 `json:"ns"`
	LS    float64 `json:"ls"`
	TH    int     `json:"th"` // network simplex thoroughness; -1 = library default
	Virt  bool    `json:"virt,omitempty"`
	Scale int     `json:"scale,omitempty"` // all sizes and spacings multiplied by 2^Scale
	Picks []int   `json:"picks,omitempty"` // answers of the random greedy picks (P1 == 2)
	Mon   bool    `json:"mon,omitempty"`   // attach a recording monitor
}

var p1Names = []string{"greedy", "dfs", "greedy-random"}
var p2Names = []string{"ns", "lp"}
var p4Names = []string{"sink", "valign", "packright", "ns", "bk", "bk0", "bk1", "bk2", "bk3"}
var p5Names = []string{"noop", "straight", "polyline", "ortho", "splines"}

func (c Cfg) String() string {
	s := fmt.Sprintf("%s/%s/%s/%s sz%d", p1Names[c.P1], p2Names[c.P2], p4Names[c.P4], p5Names[c.P5], c.SZ)
	if c.P3 == 1 {
		s += " no-ordering"
	}
	if c.Rot != 0 {
		s += fmt.Sprintf(" rot%d", c.Rot)
	}
	if c.SZ >= 5 {
		s += fmt.Sprintf(" wmask%d", c.WMask)
	}
	s += fmt.Sprintf(" sp(%g,%g) th%d", c.NS, c.LS, c.TH)
	if c.Virt {
		s += " virt"
	}
	if c.Scale != 0 {
		s += fmt.Sprintf(" scale2^%d", c.Scale)
	}
	if len(c.Picks) > 0 {
		s += fmt.Sprint(" picks", c.Picks)
	}
	return s
}

func (c Cfg) SizeAware() bool { return c.P4 <= 3 }

const fixW, fixH = 10.0, 6.0

var tabW = []float64{10, 30, 6, 18, 2, 12, 40, 0}
var tabH = []float64{6, 12, 4, 6, 10, 0, 8, 2}
// mixed-parity widths (SZ 9): with even widths only, every centre is an integer and two x coordinates are never less
// than one unit apart without being equal; widths 1, 3, 7 put centres on halves
var tabW9 = []float64{3, 1, 30, 7, 1, 18, 41, 12}
var wset2 = []float64{2, 30}
var wset3 = []float64{2, 10, 30}

// expSize is the reference model of "the width/height configured for node i".
func (c Cfg) expSize(i int) (w, h float64) {
	k := math.Ldexp(1, c.Scale)
	t := (i + c.Rot) % len(tabW)
	switch c.SZ {
	case 0:
		return 0, 0
	case 1:
		return fixW * k, fixH * k
	case 2:
		return tabW[t] * k, tabH[t] * k
	case 3:
		if i%2 == 0 {
			return tabW[t] * k, tabH[t] * k
		}
		return 0, 0
	case 4:
		if i%2 == 0 {
			return tabW[t] * k, tabH[t] * k
		}
		return fixW * k, fixH * k
	case 5:
		return wset2[(c.WMask>>uint(i))&1] * k, tabH[t] * k
	case 8:
		// the table, except that the nodes with index >= WMask are big and tall (40x40)
		if i >= c.WMask {
			return 40 * k, 40 * k
		}
		return tabW[t] * k, tabH[t] * k
	case 9:
		return tabW9[t] * k, tabH[t] * k
	case 10:
		// as 4 (even nodes listed in the map, over a fixed size), except that node 0 is LISTED with size 0x0: a listed
		// size of zero is still the size the caller asked for
		if i == 0 {
			return 0, 0
		}
		if i%2 == 0 {
			return tabW[t] * k, tabH[t] * k
		}
		return fixW * k, fixH * k
	case 6:
		m := c.WMask
		for j := 0; j < i; j++ {
			m /= 3
		}
		return wset3[m%3] * k, tabH[t] * k
	}
	panic("bad SZ")
}

func (c Cfg) listed(i int) bool {
	switch c.SZ {
	case 2, 5, 6, 8, 9:
		return true
	case 3, 4, 10:
		return i%2 == 0
	}
	return false
}

var p4Algs = []any{autog.PositioningSinkColoring, autog.PositioningVAlign, autog.PositioningPackRight, autog.PositioningNetworkSimplex, autog.PositioningBrandesKoepf}

func (c Cfg) options(in Input) ([]autog.Option, map[string]graph.Size) {
	var o []autog.Option
	switch c.P1 {
	case 0:
		o = append(o, autog.WithCycleBreaking(autog.CycleBreakingGreedy))
	case 1:
		o = append(o, autog.WithCycleBreaking(autog.CycleBreakingDepthFirst))
	case 2:
		o = append(o, autog.WithCycleBreaking(autog.CycleBreakingGreedy), autog.WithNonDeterministicGreedyCycleBreaker())
	}
	if c.P2 == 0 {
		o = append(o, autog.WithLayering(autog.LayeringNetworkSimplex))
	} else {
		o = append(o, autog.WithLayering(autog.LayeringLongestPath))
	}
	if c.P3 == 1 {
		o = append(o, autog.WithOrdering(autog.OrderingNoop))
	}
	switch {
	case c.P4 == 0:
		o = append(o, autog.WithPositioning(autog.PositioningSinkColoring))
	case c.P4 == 1:
		o = append(o, autog.WithPositioning(autog.PositioningVAlign))
	case c.P4 == 2:
		o = append(o, autog.WithPositioning(autog.PositioningPackRight))
	case c.P4 == 3:
		o = append(o, autog.WithPositioning(autog.PositioningNetworkSimplex))
	case c.P4 == 4:
		o = append(o, autog.WithPositioning(autog.PositioningBrandesKoepf))
	default:
		o = append(o, autog.WithPositioning(autog.PositioningBrandesKoepf), autog.WithBrandesKoepfLayout(c.P4-5))
	}
	switch c.P5 {
	case 0:
		o = append(o, autog.WithEdgeRouting(autog.EdgeRoutingNoop))
	case 1:
		o = append(o, autog.WithEdgeRouting(autog.EdgeRoutingStraight))
	case 2:
		o = append(o, autog.WithEdgeRouting(autog.EdgeRoutingPolyline))
	case 3:
		o = append(o, autog.WithEdgeRouting(autog.EdgeRoutingOrtho))
	case 4:
		o = append(o, autog.WithEdgeRouting(autog.EdgeRoutingSplines))
	}
	k := math.Ldexp(1, c.Scale)
	var sizes map[string]graph.Size
	switch c.SZ {
	case 1, 4, 10:
		o = append(o, autog.WithNodeFixedSize(fixW*k, fixH*k))
	}
	if c.SZ == 7 {
		// size determined by the node's NAME (C09: a node keeps its size whether laid out alone or in a union)
		sizes = map[string]graph.Size{}
		for i, n := 0, in.N(); i < n; i++ {
			h := 0
			for _, b := range []byte(in.Name(i)) {
				h = h*7 + int(b)
			}
			sizes[in.Name(i)] = graph.Size{W: tabW[h%len(tabW)] * k, H: tabH[(h/3)%len(tabH)] * k}
		}
		o = append(o, autog.WithNodeSize(sizes))
	} else if c.SZ >= 2 {
		sizes = map[string]graph.Size{}
		n := in.N()
		for i := 0; i < n; i++ {
			if c.listed(i) {
				w, h := c.expSize(i)
				sizes[in.Name(i)] = graph.Size{W: w, H: h}
			}
		}
		o = append(o, autog.WithNodeSize(sizes))
	}
	o = append(o, autog.WithNodeSpacing(c.NS*k), autog.WithLayerSpacing(c.LS*k))
	if c.TH >= 0 {
		o = append(o, autog.WithNetworkSimplexThoroughness(uint(c.TH)))
	}
	if c.Virt {
		o = append(o, autog.WithOutputVirtualNodes(true))
	}
	return o, sizes
}

type Event struct {
	Phase int
	Alg   string
	Key   string
	Val   string
}

type PivotInfo struct {
	Pivots, Maxitr int
	Pending        bool
	Nodes          int
}

// Res is the observation of one execution of the real Layout.
type Res struct {
	L            graph.Layout
	Panic        string // "" = returned
	PanicFn      string // innermost autog function on the panicking stack
	Events       []Event
	Pivots       []PivotInfo
	PickN        []int // number of candidates at each random pick
	Trace        []verifrt.Point
	Uncontrolled map[string]int
	InputMutated bool
}

func (r *Res) OK() bool { return r.Panic == "" }

// Class is the refactoring-stable classification of an abnormal end: function + message class.
func (r *Res) Class() string {
	return "panic:" + r.PanicFn + ":" + msgClass(r.Panic)
}

var reDigits = regexp.MustCompile(`-?[0-9]+`)
var reHex = regexp.MustCompile(`0x[0-9a-f]+`)

func msgClass(s string) string {
	s = reHex.ReplaceAllString(s, "X")
	s = reDigits.ReplaceAllString(s, "N")
	if len(s) > 100 {
		s = s[:100]
	}
	return s
}

var picks struct {
	answers []int
	n       []int
}

var pivotLog []PivotInfo

func init() {
	phase1.VerifPickHook = func(n int) (int, bool) {
		i := len(picks.n)
		picks.n = append(picks.n, n)
		if i < len(picks.answers) {
			a := picks.answers[i]
			if a >= n {
				panic("verif: replay divergence: random pick out of range")
			}
			return a, true
		}
		return 0, true
	}
	phase2.VerifPivotsHook = func(p, m int, pending bool, nodes int) {
		pivotLog = append(pivotLog, PivotInfo{p, m, pending, nodes})
	}
}

var totalExec int64

// exec runs the real Layout once, on the given input and configuration, under the given map-order deviations.
func exec(in Input, c Cfg, choices map[int]int) (res *Res) {
	totalExec++
	res = &Res{}
	edges := in.Edges()
	opts, sizes := c.options(in)
	// private copies for the "caller's data unmodified" clause
	var edgesCopy [][]string
	var sizesCopy map[string]graph.Size
	edgesCopy = make([][]string, len(edges))
	for i, e := range edges {
		edgesCopy[i] = append([]string(nil), e...)
	}
	if sizes != nil {
		sizesCopy = make(map[string]graph.Size, len(sizes))
		for k, v := range sizes {
			sizesCopy[k] = v
		}
	}
	if c.Mon {
		opts = append(opts, autog.WithMonitor(imonitor.NewFunc(func(phase int, alg, key string, val any) {
			v := ""
			switch x := val.(type) {
			case int:
				v = fmt.Sprint(x)
			case string:
				v = x
			default:
				v = "?"
			}
			res.Events = append(res.Events, Event{phase, alg, key, v})
		})))
	}
	st := verifrt.Reset(choices)
	picks.answers, picks.n = c.Picks, picks.n[:0]
	pivotLog = pivotLog[:0]
	defer func() {
		res.Trace = st.Trace
		if len(st.Uncontrolled) > 0 {
			res.Uncontrolled = st.Uncontrolled
		}
		res.PickN = append([]int(nil), picks.n...)
		res.Pivots = append([]PivotInfo(nil), pivotLog...)
		if e := recover(); e != nil {
			res.Panic = fmt.Sprint(e)
			if res.Panic == "" {
				res.Panic = "(empty panic value)"
			}
			res.PanicFn = panicSite()
		}
		// caller's data unmodified?
		for i, e := range edges {
			if len(e) != len(edgesCopy[i]) || e[0] != edgesCopy[i][0] || e[1] != edgesCopy[i][1] {
				res.InputMutated = true
			}
		}
		if len(sizes) != len(sizesCopy) {
			res.InputMutated = true
		}
		for k, v := range sizesCopy {
			if sizes[k] != v {
				res.InputMutated = true
			}
		}
	}()
	res.L = autog.Layout(graph.EdgeSlice(edges), opts...)
	return res
}

// panicSite returns the innermost function of the module under test on the panicking goroutine's stack.
func panicSite() string {
	pc := make([]uintptr, 64)
	n := runtime.Callers(3, pc)
	frames := runtime.CallersFrames(pc[:n])
	for {
		f, more := frames.Next()
		if strings.HasPrefix(f.Function, "github.com/nulab/autog") && !strings.Contains(f.Function, "/verifx/") && !strings.Contains(f.Function, "/verifrt") {
			fn := strings.TrimPrefix(f.Function, "github.com/nulab/autog/")
			fn = strings.TrimPrefix(fn, "internal/")
			// strip closure suffixes: func1, func1.2 ...
			fn = regexp.MustCompile(`(\.func[0-9]+|\.[0-9]+)+$`).ReplaceAllString(fn, "")
			return fn
		}
		if !more {
			break
		}
	}
	return "?"
}

// ---- serialisation / hashing of observations

func appendF(b []byte, f float64) []byte {
	return binary.LittleEndian.AppendUint64(b, math.Float64bits(f))
}

func serLayout(l graph.Layout) []byte {
	b := make([]byte, 0, 64*(len(l.Nodes)+len(l.Edges)))
	for _, n := range l.Nodes {
		b = append(b, n.ID...)
		b = append(b, 0)
		b = appendF(b, n.X)
		b = appendF(b, n.Y)
		b = appendF(b, n.W)
		b = appendF(b, n.H)
	}
	b = append(b, 1)
	for _, e := range l.Edges {
		b = append(b, e.FromID...)
		b = append(b, 0)
		b = append(b, e.ToID...)
		b = append(b, 0)
		if e.ArrowHeadStart {
			b = append(b, 1)
		} else {
			b = append(b, 0)
		}
		b = binary.LittleEndian.AppendUint32(b, uint32(len(e.Points)))
		for _, p := range e.Points {
			b = appendF(b, p[0])
			b = appendF(b, p[1])
		}
	}
	return b
}

func (r *Res) Ser() []byte {
	if !r.OK() {
		return []byte("PANIC " + r.Class())
	}
	b := serLayout(r.L)
	for _, e := range r.Events {
		b = append(b, fmt.Sprint(e.Phase, e.Key, e.Val)...)
	}
	return b
}

func hash64(b []byte) uint64 {
	h := fnv.New64a()
	h.Write(b)
	return h.Sum64()
}

func describeLayout(l graph.Layout) string {
	var sb strings.Builder
	for _, n := range l.Nodes {
		fmt.Fprintf(&sb, "node %q x=%g y=%g w=%g h=%g\n", n.ID, n.X, n.Y, n.W, n.H)
	}
	for _, e := range l.Edges {
		fmt.Fprintf(&sb, "edge %q->%q arrowStart=%v points=%v\n", e.FromID, e.ToID, e.ArrowHeadStart, e.Points)
	}
	return sb.String()
}

// goTest renders a plain unit test (public API only, no explorer) that replays one (input, configuration) case:
// it fails when Layout panics and otherwise prints the layout next to the oracle's statement.
func goTest(prop string, in Input, c Cfg, detail string) string {
	var sb strings.Builder
	k := math.Ldexp(1, c.Scale)
	fmt.Fprintf(&sb, "// paste into a _test.go file of package autog_test (imports: testing, github.com/nulab/autog, github.com/nulab/autog/graph)\n")
	fmt.Fprintf(&sb, "func TestReplay%s(t *testing.T) {\n\tedges := [][]string{", prop)
	for _, e := range in.Edges() {
		fmt.Fprintf(&sb, "{%q, %q}, ", e[0], e[1])
	}
	fmt.Fprintf(&sb, "}\n\topts := []autog.Option{\n")
	if c.P1 == 1 {
		fmt.Fprintf(&sb, "\t\tautog.WithCycleBreaking(autog.CycleBreakingDepthFirst),\n")
	} else {
		fmt.Fprintf(&sb, "\t\tautog.WithCycleBreaking(autog.CycleBreakingGreedy),\n")
		if c.P1 == 2 {
			fmt.Fprintf(&sb, "\t\tautog.WithNonDeterministicGreedyCycleBreaker(), // the failing run answered the random picks with %v (hook H1)\n", c.Picks)
		}
	}
	fmt.Fprintf(&sb, "\t\tautog.WithLayering(autog.%s),\n", []string{"LayeringNetworkSimplex", "LayeringLongestPath"}[c.P2])
	if c.P3 == 1 {
		fmt.Fprintf(&sb, "\t\tautog.WithOrdering(autog.OrderingNoop),\n")
	}
	pos := []string{"PositioningSinkColoring", "PositioningVAlign", "PositioningPackRight", "PositioningNetworkSimplex", "PositioningBrandesKoepf"}
	if c.P4 <= 4 {
		fmt.Fprintf(&sb, "\t\tautog.WithPositioning(autog.%s),\n", pos[c.P4])
	} else {
		fmt.Fprintf(&sb, "\t\tautog.WithPositioning(autog.PositioningBrandesKoepf), autog.WithBrandesKoepfLayout(%d),\n", c.P4-5)
	}
	fmt.Fprintf(&sb, "\t\tautog.WithEdgeRouting(autog.%s),\n", []string{"EdgeRoutingNoop", "EdgeRoutingStraight", "EdgeRoutingPolyline", "EdgeRoutingOrtho", "EdgeRoutingSplines"}[c.P5])
	if c.SZ == 1 || c.SZ == 4 || c.SZ == 10 {
		fmt.Fprintf(&sb, "\t\tautog.WithNodeFixedSize(%g, %g),\n", fixW*k, fixH*k)
	}
	if c.SZ >= 2 {
		_, sizes := c.options(in)
		fmt.Fprintf(&sb, "\t\tautog.WithNodeSize(map[string]graph.Size{")
		for i, n := 0, in.N(); i < n; i++ {
			if sz, ok := sizes[in.Name(i)]; ok {
				fmt.Fprintf(&sb, "%q: {W: %g, H: %g}, ", in.Name(i), sz.W, sz.H)
			}
		}
		fmt.Fprintf(&sb, "}),\n")
	}
	fmt.Fprintf(&sb, "\t\tautog.WithNodeSpacing(%g), autog.WithLayerSpacing(%g),\n", c.NS*k, c.LS*k)
	if c.TH >= 0 {
		fmt.Fprintf(&sb, "\t\tautog.WithNetworkSimplexThoroughness(%d),\n", c.TH)
	}
	if c.Virt {
		fmt.Fprintf(&sb, "\t\tautog.WithOutputVirtualNodes(true),\n")
	}
	fmt.Fprintf(&sb, "\t}\n\tl := autog.Layout(graph.EdgeSlice(edges), opts...) // a panic here fails the test\n")
	fmt.Fprintf(&sb, "\tfor _, n := range l.Nodes {\n\t\tt.Logf(\"node %%q x=%%g y=%%g w=%%g h=%%g\", n.ID, n.X, n.Y, n.W, n.H)\n\t}\n")
	fmt.Fprintf(&sb, "\tfor _, e := range l.Edges {\n\t\tt.Logf(\"edge %%q->%%q arrowStart=%%v points=%%v\", e.FromID, e.ToID, e.ArrowHeadStart, e.Points)\n\t}\n")
	first := detail
	if i := strings.IndexByte(first, '\n'); i > 0 {
		first = first[:i]
	}
	fmt.Fprintf(&sb, "\tt.Errorf(%q)\n}\n", "the "+prop+" oracle said about this layout: "+first)
	return sb.String()
}

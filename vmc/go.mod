module vmc

go 1.23

#!/bin/sh
# run.sh <Cxx> quick|thorough      run one property check (rebuilds the worker from /repo's working tree)
# run.sh replay <file>             re-execute a recorded violation in a fresh process
cd "$(dirname "$0")"
export GOFLAGS=-mod=mod GOPROXY=off GOSUMDB=off GOTOOLCHAIN=local
export VERIF_DIR="${VERIF_DIR:-$(pwd)}"
if [ ! -x .work/vmc ] || [ -n "$(find vmc -newer .work/vmc -name '*.go' -not -path 'vmc/_src/*' 2>/dev/null | head -1)" ]; then
  mkdir -p .work && (cd vmc && go build -o ../.work/vmc ./super) || exit 2
fi
case "$1" in
  replay) exec ./.work/vmc replay "$2" ;;
  C*) ./.work/vmc check "$1" "${2:-quick}"; rc=$?
      ev="${VERIF_EVIDENCE_DIR:-$VERIF_DIR/evidence}/$1.json"
      if [ -x "$(command -v python3-vt)" ] && [ -f "$ev" ]; then
        python3-vt - "$ev" <<'PY' || rc=2
import json,sys,jsonschema
ev=json.load(open(sys.argv[1]))
jsonschema.validate(ev,json.load(open("/root/.vp/EVIDENCE.schema.json")))
PY
      fi
      exit $rc ;;
  *) exec ./.work/vmc "$@" ;;
esac

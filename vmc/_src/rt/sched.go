package verifrt

// AccessHook is installed by the cooperative scheduler (sched build only). Access is called by generated
// code before every statement that mentions a package-level variable of the module.
var AccessHook func(id string, w int)

func Access(id string, w int) {
	if h := AccessHook; h != nil {
		h(id, w)
	}
}

#!/usr/bin/env python3
"""seed_intake.py <agent worktree> <property> <id> : confirms a sub-agent's seeded change in a FRESH scratch worktree of
/repo (patch applies, builds, repository tests pass, demo fails with / passes without the change) and, if all of that
holds, stores it as /verif/seeded/<id>/ (patch.diff, demo, meta.json)."""
import json, os, subprocess, sys, shutil, tempfile, glob
V = os.path.dirname(os.path.dirname(os.path.abspath(__file__)))
src, prop, sid = sys.argv[1], sys.argv[2], sys.argv[3]
env = dict(os.environ, GOFLAGS="-mod=mod", GOPROXY="off", GOSUMDB="off", GOTOOLCHAIN="local")
def sh(cmd, cwd=None):
    r = subprocess.run(cmd, shell=True, capture_output=True, text=True, env=env, cwd=cwd)
    return r.returncode, (r.stdout + r.stderr)
# demo files: every untracked *_test.go in the agent's worktree
rc, out = sh("git ls-files --others --exclude-standard", cwd=src)
demos = [f for f in out.split() if f.endswith("_test.go")]
if not demos: sys.exit("no demo test file found")
if os.path.exists(f"{src}/patch.diff") and open(f"{src}/patch.diff").read().strip():
    patch = open(f"{src}/patch.diff").read()   # the agent's own library-only diff
else:
    rc, patch = sh("git diff", cwd=src)
if not patch.strip(): sys.exit("no library change in the worktree")
if "_test.go" in "".join(l for l in patch.splitlines() if l.startswith("+++ ")): sys.exit("patch touches test files")
wt = tempfile.mkdtemp(prefix="vseed-", dir="/tmp")
os.rmdir(wt)
sh(f"git -C /repo worktree add --detach {wt} HEAD")
ran = []
try:
    open(f"{wt}/.patch.diff", "w").write(patch)
    rc, out = sh("git apply .patch.diff", cwd=wt)
    if rc: sys.exit("patch does not apply to /repo HEAD: " + out)
    rc, out = sh("go build ./... && go vet -tags verif ./... >/dev/null 2>&1; go build -tags verif ./...", cwd=wt)
    if rc: sys.exit("does not build: " + out)
    rc, out = sh("go test -vet=off -count=1 ./... 2>&1", cwd=wt)
    ran.append("go test -vet=off -count=1 ./...  (with the change, without the demo): " + ("all pass" if rc == 0 else "FAIL"))
    if rc: sys.exit("repository tests fail with the change:\n" + out[-1500:])
    for d in demos:
        os.makedirs(os.path.dirname(f"{wt}/{d}") or wt, exist_ok=True)
        shutil.copy(f"{src}/{d}", f"{wt}/{d}")
    pkgs = sorted(set("./" + (os.path.dirname(d) or ".") for d in demos))
    cmd = "go test -vet=off -count=1 -run 'TestDemo' " + " ".join(pkgs)
    # nondeterministic changes may need several runs to show: up to 20 attempts
    failed = False
    for i in range(20):
        rc, out = sh(cmd, cwd=wt)
        if rc != 0:
            failed = True; fail_out = out; break
    ran.append(f"{cmd}  (with the change): " + (f"FAILS (attempt {i+1})" if failed else "passes 20x"))
    if not failed: sys.exit("demo does not fail with the change")
    sh("git apply -R .patch.diff", cwd=wt)
    okc = 0
    for i in range(5):
        rc, out = sh(cmd, cwd=wt)
        okc += rc == 0
    ran.append(f"{cmd}  (without the change): passes {okc}/5")
    if okc != 5: sys.exit("demo does not pass without the change:\n" + out[-1500:])
    dst = f"{V}/seeded/{sid}"
    os.makedirs(dst, exist_ok=True)
    open(f"{dst}/patch.diff", "w").write(patch)
    for d in demos:
        shutil.copy(f"{src}/{d}", f"{dst}/{os.path.basename(d)}")
    notes = open(f"{src}/SEED_NOTES.md").read() if os.path.exists(f"{src}/SEED_NOTES.md") else ""
    open(f"{dst}/SEED_NOTES.md", "w").write(notes)
    meta = {"property": prop, "breaks": prop, "author": "independent sub-agent (saw only the property text and a scratch worktree)",
            "demo_files": {os.path.basename(d): d for d in demos},
            "needs": "", "changed": [l[6:] for l in patch.splitlines() if l.startswith("+++ b/")],
            "confirmed_by": ran, "demo_failure_excerpt": fail_out[-600:]}
    json.dump(meta, open(f"{dst}/meta.json", "w"), indent=1)
    print("stored", dst)
    for r in ran: print("  ", r)
finally:
    sh(f"git -C /repo worktree remove --force {wt}")

package main

import (
	"bytes"
	"fmt"
	"os"

	"github.com/nulab/autog/internal/verifrt"
)

// C07 — E2: choice-point DFS over map iteration orders. The default execution answers every choice point with
// the canonical (insertion) order; a deviation answers one point with another permutation of the keys.
// Deviation bound d: every execution with <= d deviating points is run and must return the byte-identical layout.
func evalC07(depth int, grid []Cfg) func(x *Ctx, in Input) { return evalC07opt(depth, grid, false) }

// light = true (deep inputs): deviate only at the first and the last occurrence of every range statement in the
// default execution, and only by reversal and rotation-by-one (the two orders most likely to expose an
// order-sensitive loop body) instead of the whole permutation family.
func evalC07opt(depth int, grid []Cfg, light bool) func(x *Ctx, in Input) {
	return func(x *Ctx, in Input) {
		for _, c := range grid {
			c := c
			if !x.Unit(&c) {
				continue
			}
			r0 := x.Run(in, c, nil)
			base := r0.Ser()
			if x.InValidationSlice() || x.valMode {
				x.Validate(base)
			}
			if x.valMode {
				// fresh-process clause: the uninstrumented build, real Go map order; a few repetitions in this process too
				for k := 0; k < 2; k++ {
					if r := x.Run(in, c, nil); !bytes.Equal(r.Ser(), base) {
						x.Violate("C07:repeat-differs", &c, nil, "the same call repeated in one process (uninstrumented build) returned a different layout")
						break
					}
				}
				continue
			}
			if !r0.OK() {
				x.Blocked(r0)
				continue
			}
			if r0.InputMutated {
				x.Violate("C07:input-mutated", &c, nil, "Layout modified the caller's edge list or size map")
			}
			if r1 := x.Run(in, c, nil); !bytes.Equal(r1.Ser(), base) {
				x.Violate("C07:repeat-differs", &c, nil, "the same call repeated in the same process returned a different layout\nfirst:\n"+describeLayout(r0.L)+"second:\n"+describeLayout(r1.L))
				continue // with a result that drifts from call to call, comparing deviating runs with the first one says nothing about map order
			}
			x.Hist("choice-points-per-run", len(r0.Trace))
			npts := 0
			var explore func(prefix map[int]int, from int, tr []verifrt.Point, d int)
			explore = func(prefix map[int]int, from int, tr []verifrt.Point, d int) {
				var firstOcc, lastOcc map[string]int
				if light {
					firstOcc, lastOcc = map[string]int{}, map[string]int{}
					for i, p := range tr {
						if _, ok := firstOcc[p.Site]; !ok {
							firstOcc[p.Site] = i
						}
						lastOcc[p.Site] = i
					}
				}
				for i := from; i < len(tr); i++ {
					n := tr[i].N
					if light && firstOcc[tr[i].Site] != i && lastOcc[tr[i].Site] != i {
						continue
					}
					for alt := 1; alt < verifrt.NAlts(n); alt++ {
						if light && alt != 1 && alt != verifrt.NAlts(n)-1 {
							continue
						}
						ch := map[int]int{}
						for k, v := range prefix {
							ch[k] = v
						}
						ch[i] = alt
						if onlyEnv != "" && onlyEnv != fmt.Sprintf("%d:%d", i, alt) {
							continue
						}
						if traceEnv {
							fmt.Fprintln(os.Stderr, "TRACE cfg", c.String(), "deviation at", i, tr[i].Site, "n", n, "alt", alt, "choices", ch)
						}
						r := x.Run(in, c, ch)
						x.st.Transitions++
						npts++
						if !bytes.Equal(r.Ser(), base) {
							site := tr[i].Site
							what := "returned a different layout"
							if !r.OK() {
								what = "ended in " + r.Class()
							}
							x.Violate("C07:order-dependent:"+site, &c, map[string]any{"choices": ch},
								fmt.Sprintf("iterating the %d-key map at %s in another order (alternative %d) %s\ncanonical order:\n%sdeviating order:\n%s", n, site, alt, what, describeLayout(r0.L), describeLayout(r.L)))
							continue
						}
						if d > 1 {
							explore(ch, i+1, r.Trace, d-1)
						}
					}
				}
			}
			explore(nil, 0, r0.Trace, depth)
			if len(r0.Trace) > 0 {
				x.Nontrivial(base)
				for _, p := range r0.Trace {
					x.Hist("keys-per-choice-point", p.N)
				}
			}
		}
		x.Sample(map[string]any{"input": in.E})
	}
}

// evalC07Repeat: no map-order deviations, deeper inputs: the same call is made again at once and once more after a
// call on a DIFFERENT input (the previous one of the enumeration); all three must return the same layout, and the
// uninstrumented build in a fresh process must return it too (validation slice). What this sees that the deviation
// search on shallow inputs does not: state that survives a call inside the library (a pooled or cached object, a
// counter) and only matters for inputs with >= 5 edges.
func evalC07Repeat(grid []Cfg) func(x *Ctx, in Input) {
	var prev *Input
	return func(x *Ctx, in Input) {
		other := prev
		cp := in.Clone()
		prev = &cp
		for _, c := range grid {
			c := c
			if !x.Unit(&c) {
				continue
			}
			r0 := x.Run(in, c, nil)
			base := r0.Ser()
			if x.InValidationSlice() || x.valMode {
				x.Validate(base)
			}
			if x.valMode {
				continue
			}
			if !r0.OK() {
				x.Blocked(r0)
				continue
			}
			if r0.InputMutated {
				x.Violate("C07:input-mutated", &c, nil, "Layout modified the caller's edge list or size map")
			}
			if r1 := x.Run(in, c, nil); !bytes.Equal(r1.Ser(), base) {
				x.Violate("C07:repeat-differs", &c, nil, "the same call repeated in the same process returned a different layout\nfirst:\n"+describeLayout(r0.L)+"second:\n"+describeLayout(r1.L))
				continue
			}
			if other != nil {
				x.Run(*other, c, nil)
				if r2 := x.Run(in, c, nil); !bytes.Equal(r2.Ser(), base) {
					x.Violate("C07:repeat-differs", &c, map[string]any{"call_in_between": other.E}, fmt.Sprintf("the same call returned a different layout after a call on another graph (%v) in between\nfirst:\n%safter:\n%s", other.E, describeLayout(r0.L), describeLayout(r2.L)))
					continue
				}
			}
			x.Nontrivial(base)
		}
		x.Sample(map[string]any{"input": in.E})
	}
}

func init() {
	checks["C07"] = func(tier string) []*Pass {
		main := append(gridSpec{P1: allP1, P2: allP2, P4: []int{0, 1, 2, 3, 4}, P5: []int{2}, SZ: []int{2}}.list(),
			gridSpec{P1: []int{0}, P2: []int{0}, P4: []int{0}, P5: []int{0, 1, 3, 4}, SZ: []int{2}}.list()...)
		main = append(main, gridSpec{P1: []int{0}, P2: []int{0}, P4: []int{5, 6, 7, 8}, P5: []int{2}, SZ: []int{1}}.list()...)
		small := gridSpec{P1: allP1, P2: allP2, P4: []int{0, 3, 4}, P5: []int{2}, SZ: []int{2}}.list()
		// the NetworkSimplex positioner's ties depend on the sizes: drive it with zero and uniform sizes too
		nsp := gridSpec{P1: []int{0}, P2: allP2, P4: []int{3}, P5: []int{2}, SZ: []int{0, 1}, SP: [][2]float64{{4, 8}, {0, 8}}}.list()
		main = append(main, nsp...)
		small = append(small, nsp...)
		// helper nodes made visible: their IDs and coordinates are part of the returned value too
		virt := gridSpec{P1: []int{0}, P2: allP2, P4: []int{0, 1}, P5: []int{2}, SZ: []int{4}, Virt: []bool{true}}.list()
		main = append(main, virt...)
		small = append(small, virt...)
		reach := func(in Input, a *Analysis) bool { return a.NComp >= 2 || a.SelfLoops >= 2 || a.AntiPar || a.Parallel }
		d := tierPick(tier, 3, 4)
		ps := []*Pass{
			{Name: "G-d1", Space: spaceG(1, d, 0, nil), Eval: evalC07(1, main), BudgetS: 10, HeapMB: 512,
				Bound: fmt.Sprintf("all edge lists with <=%d edges x 20 algorithm combinations + every router + forced b&k layouts; every execution with <=1 deviating map order (all k! orders for k<=4 keys, rotations+transpositions+reversal beyond)", d)},
			{Name: "G-d2", Space: spaceG(1, d-1, 0, nil), Eval: evalC07(2, small), BudgetS: 10, HeapMB: 512,
				Bound: fmt.Sprintf("all edge lists with <=%d edges x {greedy,dfs} x {ns,lp} x {sink,ns,bk}; every execution with <=2 deviating map orders", d-1)},
			{Name: "G-reach-d1", Space: spaceG(d+1, d+1, 0, reach), Eval: evalC07(1, small), BudgetS: 10, HeapMB: 512,
				Bound: fmt.Sprintf("edge lists with %d edges that have >=2 components, >=2 self-loops or parallel/antiparallel edges x 12 combinations; <=1 deviation", d+1)},
			{Name: "seeds-d1", Space: spaceSeeded(seedWitnesses, 1), Eval: evalC07(1, small), BudgetS: 10, HeapMB: 512,
				Bound: "all states within 1 edit operation of the recorded witnesses; <=1 deviation"},
			{Name: "G5..6-cyclic-light", Space: spaceG(5, 6, 5, func(in Input, a *Analysis) bool { return !a.DAG }), BudgetS: 10, HeapMB: 512,
				Eval:  evalC07opt(1, gridSpec{P1: []int{0}, P2: []int{0}, P4: []int{0, 4}, P5: []int{2}, SZ: []int{1}}.list(), true),
				Bound: "all cyclic edge lists with 5..6 edges on <=5 nodes x greedy x ns x {sink,bk}; one deviation (reversal or rotation) at the first/last occurrence of every range statement"},
		}
		// adversarial node names (whitespace, case, helper-node look-alikes): the caller's-data-unmodified clause and
		// determinism must not depend on what the IDs look like
		ps = append(ps, &Pass{Name: "G3-adversarial-names", BudgetS: 10, HeapMB: 512,
			Space: func(emit func(Input)) {
				pool := []string{" a", "a ", "A", "a", "\ta\n", "V1", "NE0", "", "é", "e\u0301", "0", "00", "n1"}
				spaceG(1, 3, 0, nil)(func(in Input) {
					n := in.N()
					for r := 0; r < len(pool); r++ {
						nm := make([]string, n)
						for i := range nm {
							nm[i] = pool[(i+r)%len(pool)]
						}
						emit(Input{E: in.E, Names: nm})
					}
				})
			},
			Eval:  evalC07(1, gridSpec{P1: []int{0}, P2: allP2, P4: []int{0, 3}, P5: []int{2}, SZ: []int{4}}.list()),
			Bound: "all edge lists with <=3 edges x 13 assignments of adversarial names (leading/trailing whitespace, case variants, composed/decomposed Unicode, helper-node look-alikes, empty string) x {ns,lp} x {sink,ns}: caller's edge list and size map unmodified, <=1 deviation"})
		ps = append(ps, &Pass{Name: "G-repeat", Space: spaceG(d+1, d+2, 0, nil), Eval: evalC07Repeat([]Cfg{{P1: 0, P2: 0, P4: 0, P5: 2, SZ: 1, NS: 4, LS: 8, TH: -1}, {P1: 1, P2: 1, P4: 4, P5: 3, SZ: 2, NS: 4, LS: 8, TH: -1}}), BudgetS: 10, HeapMB: 512,
			Bound: fmt.Sprintf("all edge lists with %d..%d edges x {greedy/ns/sink/polyline, dfs/lp/b&k/ortho}: the same call repeated at once and again after a call on another graph returns the same layout (no map-order deviations at this depth)", d+1, d+2)})
		ps = append(ps, &Pass{Name: "option-sequences", Space: optSequences(3), Eval: evalC07Options, BudgetS: 10, HeapMB: 512,
			Bound: fmt.Sprintf("every sequence of <=3 options from an alphabet of %d (two different size maps, fixed size, spacings incl. 0, positioners, routers, breaker, layerer, virtual-node output, thoroughness, forced b&k layout) x %d graphs: caller's edge slice and every size map unchanged, the same call repeated after a different call returns the same layout", len(optAlphabet), len(optGraphs))})
		if tier == "thorough" {
			ps = append(ps, &Pass{Name: "D(6,6..7)-d1", Space: spaceD(6, 6, 7, false), BudgetS: 10, HeapMB: 512,
				Eval:  evalC07(1, []Cfg{{P1: 0, P2: 0, P4: 1, P5: 2, SZ: 1, NS: 4, LS: 8, TH: -1}, {P1: 0, P2: 0, P4: 3, P5: 2, SZ: 1, NS: 4, LS: 8, TH: -1}}),
				Bound: "every multiset of 6..7 edges over the 15 pairs of 6 nodes (the space where the simplex pivots) x ns layering x {valign, ns positioner}; <=1 deviation"})
		}
		return ps
	}
}

var traceEnv = os.Getenv("VERIF_TRACE") != ""

var onlyEnv = os.Getenv("VERIF_ONLY")

#!/usr/bin/env python3
"""Detection demo: applies each textual mutant of mutants/catalogue.json (or each seeded change under seeded/) to a
scratch worktree of /repo (outside /repo and /verif), checks that it still compiles and passes the repository's own
tests, runs the property's quick check against the scratch tree and records whether it raised a VIOLATION.
Usage: tools/mutants.py [--only ID,ID] [--seeded] [--tier quick]"""
import json, os, subprocess, sys, shutil, tempfile, time
V = os.path.dirname(os.path.dirname(os.path.abspath(__file__)))
env = dict(os.environ, GOFLAGS="-mod=mod", GOPROXY="off", GOSUMDB="off", GOTOOLCHAIN="local")
only = None
seeded = "--seeded" in sys.argv
tier = "quick"
for i, a in enumerate(sys.argv):
    if a == "--only": only = set(sys.argv[i+1].split(","))
    if a == "--tier": tier = sys.argv[i+1]
scratch = tempfile.mkdtemp(prefix="vmut-", dir="/tmp")
results = []
def sh(cmd, **kw):
    return subprocess.run(cmd, shell=True, capture_output=True, text=True, env=env, **kw)
items = []
if seeded:
    for d in sorted(os.listdir(f"{V}/seeded")):
        mp = f"{V}/seeded/{d}/meta.json"
        if os.path.exists(mp):
            m = json.load(open(mp)); m["id"] = d; m["patch"] = f"{V}/seeded/{d}/patch.diff"
            items.append(m)
else:
    items = json.load(open(f"{V}/mutants/catalogue.json"))
for m in items:
    if only and m["id"] not in only: continue
    wt = f"{scratch}/{m['id']}"
    sh(f"git -C /repo worktree add --detach {wt} HEAD")
    try:
        status = None
        if "patch_file" in m:
            m["patch"] = f"{V}/{m['patch_file']}"
        if "patch" in m:
            r = sh(f"git -C {wt} apply {m['patch']}")
            if r.returncode != 0: status = "patch does not apply: " + r.stderr.strip()[:200]
        else:
            for e in m["edits"]:
                p = f"{wt}/{e['file']}"
                s = open(p).read()
                if e["old"] not in s:
                    status = f"anchor lost in {e['file']}"; break
                open(p, "w").write(s.replace(e["old"], e["new"], 1))
        if status is None:
            r = sh("go build ./... && go test -vet=off -count=1 ./... 2>&1 | grep -v 'no test files' | grep -v '^ok' | head -5", cwd=wt)
            if r.returncode == 0 and r.stdout.strip() == "" or "FAIL" not in r.stdout and "cannot" not in r.stdout and r.stdout.strip()=="":
                tests = "compiles, repository tests pass"
            else:
                tests = "TESTS/BUILD FAIL: " + (r.stdout + r.stderr).strip()[:300]
            props = m.get("checks") or [m["property"]]
            outs = {}
            for prop in props:
                t0 = time.time()
                e2 = dict(env, VERIF_REPO=wt, VERIF_EVIDENCE_DIR=f"{scratch}/ev", VERIF_REPLAY_DIR=f"{scratch}/rp", VERIF_WORK=f"{scratch}/work")
                r = subprocess.run([f"{V}/run.sh", prop, tier], capture_output=True, text=True, env=e2)
                classes = {}
                try:
                    ev = json.load(open(f"{scratch}/ev/{prop}.json"))
                    classes = ev["coverage"].get("violation_classes") or {}
                except Exception as ex:
                    classes = {"(no evidence)": str(ex)}
                outs[prop] = {"exit": r.returncode, "violation": "VIOLATION property=" in r.stdout, "classes": classes, "wall_s": round(time.time()-t0, 1)}
            status = {"tests": tests, "checks": outs}
        results.append({"id": m["id"], "property": m.get("property"), "expect": m.get("expect", "violation"), "note": m.get("note") or m.get("needs"), "result": status})
        print(json.dumps(results[-1]), flush=True)
    finally:
        sh(f"git -C /repo worktree remove --force {wt}")
shutil.rmtree(scratch, ignore_errors=True)
out = f"{V}/mutants/results-seeded.json" if seeded else f"{V}/mutants/results.json"
if not only:
    json.dump(results, open(out, "w"), indent=1)
ok = 0
for r in results:
    res = r["result"]
    if isinstance(res, dict):
        caught = any(c["violation"] for c in res["checks"].values())
        want = r["expect"] == "violation"
        ok += caught == want or r["expect"] == "masked"
        print(f"{r['id']:8s} {r['property']} expect={r['expect']:9s} caught={caught} {res['tests'][:40]}")
    else:
        print(f"{r['id']:8s} {res}")
print(f"{ok}/{len(results)} as expected")

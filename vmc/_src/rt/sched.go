package verifrt

import (
	"bytes"
	"fmt"
	"hash/fnv"
	"runtime"
	"sort"
	"strconv"
	"strings"
	"sync"
)

// ---- cooperative scheduler (sched build): every access to a package-level variable of the module under test is a
// scheduling point. Exactly one thread runs between two grants, so the explorer owns the interleaving.

// AccessHook is installed while a scheduled run is in progress. Access is called by generated code before every
// statement that mentions a package-level variable of the module.
var AccessHook func(id string, w int)

func Access(id string, w int) {
	if h := AccessHook; h != nil {
		h(id, w)
	}
}

type req struct {
	tid  int
	id   string
	w    int
	done bool
	res  string
}

// Step is one scheduling decision.
type Step struct {
	Key     string // state key before the decision
	Enabled []int  // canonical order: running thread first if still enabled, then ascending ids
	Chosen  int    // thread id
	Var     string // the access the chosen thread performs next
	W       bool
}

type SchedResult struct {
	Trace  []Step
	Races  map[string]string // variable -> description of two conflicting accesses by different threads
	Result []string
}

func goid() int64 {
	var buf [64]byte
	n := runtime.Stack(buf[:], false)
	f := bytes.Fields(buf[:n])
	id, _ := strconv.ParseInt(string(f[1]), 10, 64)
	return id
}

// RunSched executes the bodies as threads under the scheduler, following choices (indices into the canonical
// enabled list; beyond the prefix the default choice 0 = stay on the running thread / lowest id).
// snap renders the global state (part of the state key). A choice out of range is a replay divergence: panic.
func RunSched(bodies []func() string, choices []int, snap func() string) *SchedResult {
	n := len(bodies)
	var mu sync.Mutex
	gids := map[int64]int{}
	reqs := make(chan req)
	grant := make([]chan struct{}, n)
	states := make([]*State, n)
	for i := range grant {
		grant[i] = make(chan struct{})
		states[i] = NewState(nil)
	}
	res := &SchedResult{Races: map[string]string{}, Result: make([]string, n)}
	AccessHook = func(id string, w int) {
		mu.Lock()
		tid, ok := gids[goid()]
		mu.Unlock()
		if !ok {
			return // not a scheduled thread (the explorer itself)
		}
		reqs <- req{tid: tid, id: id, w: w}
		<-grant[tid]
	}
	defer func() { AccessHook = nil }()
	for t := 0; t < n; t++ {
		go func(t int) {
			mu.Lock()
			gids[goid()] = t
			mu.Unlock()
			Access("<start>", 0)
			var r string
			func() {
				defer func() {
					if e := recover(); e != nil {
						r = fmt.Sprint("PANIC ", e)
					}
				}()
				r = bodies[t]()
			}()
			reqs <- req{tid: t, done: true, res: r}
		}(t)
	}
	pending := map[int]req{}
	live := n
	count := make([]int, n)
	rh := make([]uint64, n)
	type acc struct {
		tid int
		w   bool
	}
	seen := map[string][]acc{}
	last := -1
	waitFor := n
	for live > 0 {
		for waitFor > 0 {
			r := <-reqs
			waitFor--
			if r.done {
				live--
				res.Result[r.tid] = r.res
			} else {
				pending[r.tid] = r
			}
		}
		if live == 0 {
			break
		}
		var en []int
		for t := range pending {
			en = append(en, t)
		}
		sort.Ints(en)
		for i, t := range en {
			if t == last {
				copy(en[1:i+1], en[:i])
				en[0] = t
			}
		}
		g := snap()
		key := fmt.Sprint(count, rh, g)
		ci := 0
		if len(res.Trace) < len(choices) {
			ci = choices[len(res.Trace)]
			if ci >= len(en) {
				panic("verifrt: replay divergence: scheduling choice out of range")
			}
		}
		t := en[ci]
		r := pending[t]
		delete(pending, t)
		res.Trace = append(res.Trace, Step{Key: key, Enabled: append([]int(nil), en...), Chosen: t, Var: r.id, W: r.w == 1})
		if r.id != "<start>" && !strings.HasPrefix(r.id, "sync:") {
			for _, a := range seen[r.id] {
				if a.tid != t && (a.w || r.w == 1) {
					res.Races[r.id] = fmt.Sprintf("thread %d (write=%v) and thread %d (write=%v) both access %s and the library has no synchronisation", a.tid, a.w, t, r.w == 1, r.id)
				}
			}
			seen[r.id] = append(seen[r.id], acc{t, r.w == 1})
		}
		count[t]++
		h := fnv.New64a()
		fmt.Fprint(h, rh[t], r.id, g)
		rh[t] = h.Sum64()
		last = t
		waitFor = 1
		cur = states[t] // the granted thread's private map-order state
		grant[t] <- struct{}{}
	}
	cur = NewState(nil)
	return res
}

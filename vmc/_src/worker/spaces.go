package main

import (
	"fmt"
	"sort"
)

// ---- E1: operation-sequence search over AddEdge histories, canonicalised by first-occurrence relabelling.
// A canonical edge list of m edges is a restricted-growth string of length 2m; every prefix of even length of
// a canonical list is canonical, so the search space is a tree whose nodes are the states and whose arcs are
// the AddEdge(u,v) operations with u,v in {existing nodes} + {one fresh node each}.

// spaceG enumerates all canonical edge lists with 1..m edges and at most maxNodes nodes (0 = unbounded),
// in order of increasing depth, keeping those accepted by filter (nil = all).
func spaceG(mMin, m, maxNodes int, filter func(in Input, a *Analysis) bool) func(emit func(Input)) {
	return spaceGN(mMin, m, func(int) int { return 0 }, maxNodes, filter)
}

// spaceGN additionally prunes the enumeration tree to the lists with at least minNodes(d) nodes at depth d
// (trees with d edges have exactly d+1 nodes: S(2d, d+1) lists instead of Bell(2d)).
func spaceGN(mMin, m int, minNodes func(d int) int, maxNodes int, filter func(in Input, a *Analysis) bool) func(emit func(Input)) {
	return func(emit func(Input)) {
		for d := mMin; d <= m; d++ {
			need := minNodes(d)
			s := make([]int, 2*d)
			var rec func(i, mx int)
			rec = func(i, mx int) {
				if i == 2*d {
					in := Input{E: s}
					if filter != nil {
						a := analyze(in)
						if !filter(in, a) {
							return
						}
					}
					emit(Input{E: append([]int(nil), s...)})
					return
				}
				for l := 0; l <= mx+1 && (maxNodes == 0 || l < maxNodes); l++ {
					s[i] = l
					nm := mx
					if l > mx {
						nm = l
					}
					if nm+1+(2*d-i-1) < need {
						continue // cannot reach the required number of nodes any more
					}
					rec(i+1, nm)
				}
			}
			rec(0, -1)
		}
	}
}

// ---- E1d: every multiset of exactly/at most m edges over the pairs u<v of n topologically labelled nodes
// (connected or not), each presented in lexicographic and in reverse order.
func spaceD(n, mMin, m int, bothOrders bool) func(emit func(Input)) {
	return func(emit func(Input)) {
		var pairs [][2]int
		for u := 0; u < n; u++ {
			for v := u + 1; v < n; v++ {
				pairs = append(pairs, [2]int{u, v})
			}
		}
		for d := mMin; d <= m; d++ {
			cur := make([]int, 0, 2*d)
			var rec func(start, left int)
			rec = func(start, left int) {
				if left == 0 {
					emit(relabel(cur))
					if bothOrders && d > 1 {
						rev := make([]int, 0, len(cur))
						for i := len(cur) - 2; i >= 0; i -= 2 {
							rev = append(rev, cur[i], cur[i+1])
						}
						emit(relabel(rev))
					}
					return
				}
				for i := start; i < len(pairs); i++ {
					cur = append(cur, pairs[i][0], pairs[i][1])
					rec(i, left-1)
					cur = cur[:len(cur)-2]
				}
			}
			rec(0, d)
		}
	}
}

// spaceDS: every SET of mMin..m edges over the pairs u<v of n topologically labelled nodes that forms one connected
// graph on all n nodes (simple DAGs: the dense end of the input space, where the simplex pivots several times).
func spaceDS(n, mMin, m int) func(emit func(Input)) {
	return func(emit func(Input)) {
		var pairs [][2]int
		for u := 0; u < n; u++ {
			for v := u + 1; v < n; v++ {
				pairs = append(pairs, [2]int{u, v})
			}
		}
		par := make([]int, n)
		var find func(a int) int
		find = func(a int) int {
			for par[a] != a {
				a = par[a]
			}
			return a
		}
		for d := mMin; d <= m; d++ {
			cur := make([]int, 0, 2*d)
			var rec func(start, left int)
			rec = func(start, left int) {
				if left == 0 {
					for i := range par {
						par[i] = i
					}
					comps := n
					for i := 0; i < len(cur); i += 2 {
						if a, b := find(cur[i]), find(cur[i+1]); a != b {
							par[a] = b
							comps--
						}
					}
					if comps == 1 {
						emit(relabel(cur))
					}
					return
				}
				for i := start; i+left <= len(pairs); i++ {
					cur = append(cur, pairs[i][0], pairs[i][1])
					rec(i+1, left-1)
					cur = cur[:len(cur)-2]
				}
			}
			rec(0, d)
		}
	}
}

// relabel maps node numbers to first-occurrence order (canonical form).
func relabel(e []int) Input {
	mp := map[int]int{}
	s := make([]int, len(e))
	for j, x := range e {
		if _, ok := mp[x]; !ok {
			mp[x] = len(mp)
		}
		s[j] = mp[x]
	}
	return Input{E: s}
}

// ---- E1b: proper layered graphs: layers of given sizes, every subset of the edges between consecutive layers
// (each node must be incident to at least one edge so that the layering is forced... not required: we keep all
// non-empty subsets whose graph is connected), in two edge orders.
func spaceLayered(sizes []int, connectedOnly bool) func(emit func(Input)) {
	return func(emit func(Input)) {
		// node numbering: layer by layer
		base := make([]int, len(sizes)+1)
		for i, s := range sizes {
			base[i+1] = base[i] + s
		}
		var all [][2]int
		for l := 0; l+1 < len(sizes); l++ {
			for a := 0; a < sizes[l]; a++ {
				for b := 0; b < sizes[l+1]; b++ {
					all = append(all, [2]int{base[l] + a, base[l+1] + b})
				}
			}
		}
		n := len(all)
		for mask := 1; mask < 1<<uint(n); mask++ {
			var e []int
			for i := 0; i < n; i++ {
				if mask>>uint(i)&1 == 1 {
					e = append(e, all[i][0], all[i][1])
				}
			}
			in := relabel(e)
			if connectedOnly {
				a := analyze(in)
				if a.NComp != 1 || in.N() != base[len(sizes)] {
					continue
				}
			}
			emit(in)
			if len(e) > 2 {
				rev := make([]int, 0, len(e))
				for i := len(e) - 2; i >= 0; i -= 2 {
					rev = append(rev, e[i], e[i+1])
				}
				emit(relabel(rev))
			}
		}
	}
}

// ---- E1s: seeded search: from every seed state, all sequences of <= depth edit operations
// {delete edge i, duplicate edge i, reverse edge i, swap edges i,i+1, AddEdge(u,v)}.
func spaceSeeded(seeds [][]int, depth int) func(emit func(Input)) {
	return func(emit func(Input)) {
		seen := map[string]bool{}
		var frontier []Input
		for _, s := range seeds {
			in := relabel(s)
			k := fmt.Sprint(in.E)
			if !seen[k] {
				seen[k] = true
				frontier = append(frontier, in)
				emit(in)
			}
		}
		for d := 0; d < depth; d++ {
			var next []Input
			for _, in := range frontier {
				for _, e := range edits(in) {
					k := fmt.Sprint(e.E)
					if len(e.E) == 0 || seen[k] {
						continue
					}
					seen[k] = true
					next = append(next, e)
					emit(e)
				}
			}
			frontier = next
		}
	}
}

func edits(in Input) []Input {
	var out []Input
	m := in.M()
	e := in.E
	for i := 0; i < m; i++ {
		// delete
		d := append(append([]int(nil), e[:2*i]...), e[2*i+2:]...)
		out = append(out, relabel(d))
		// duplicate
		du := append(append([]int(nil), e...), e[2*i], e[2*i+1])
		out = append(out, relabel(du))
		// reverse
		r := append([]int(nil), e...)
		r[2*i], r[2*i+1] = r[2*i+1], r[2*i]
		out = append(out, relabel(r))
		// swap with next
		if i+1 < m {
			s := append([]int(nil), e...)
			s[2*i], s[2*i+1], s[2*i+2], s[2*i+3] = s[2*i+2], s[2*i+3], s[2*i], s[2*i+1]
			out = append(out, relabel(s))
		}
	}
	n := in.N()
	for u := 0; u <= n; u++ {
		for v := 0; v <= n+1; v++ {
			if u == n && v == n+1 {
				continue
			}
			if v == n+1 && u != n {
				continue
			}
			a := append(append([]int(nil), e...), u, v)
			out = append(out, relabel(a))
		}
	}
	return out
}

// ---- E1f: structured families (what small scope cannot reach: > 64 layers, wide layers, deep recursion)

// chains: k parallel chains of length L hanging from one root, with cross links according to pattern c at depth d.
func famChains(k, L, d, pattern int) Input {
	var e []int
	id := func(chain, depth int) int { return 1 + chain*L + depth }
	for c := 0; c < k; c++ {
		e = append(e, 0, id(c, 0))
		for j := 0; j+1 < L; j++ {
			e = append(e, id(c, j), id(c, j+1))
		}
	}
	// cross links between chain 0 and chain 1 (and 2) between depth d and d+1
	if d+1 < L {
		if pattern&1 != 0 {
			e = append(e, id(0, d), id(1, d+1))
		}
		if pattern&2 != 0 {
			e = append(e, id(1, d), id(0, d+1))
		}
		if pattern&4 != 0 && k > 2 {
			e = append(e, id(2, d), id(0, d+1))
		}
	}
	return relabel(e)
}

func famBipartite(a, b int) Input {
	var e []int
	for i := 0; i < a; i++ {
		for j := 0; j < b; j++ {
			e = append(e, i, a+j)
		}
	}
	return relabel(e)
}

func famBinTree(depth int, out bool) Input {
	var e []int
	n := 1<<uint(depth+1) - 1
	for i := 1; i < n; i++ {
		p := (i - 1) / 2
		if out {
			e = append(e, p, i)
		} else {
			e = append(e, i, p)
		}
	}
	return relabel(e)
}

func famLadder(L int, rungPattern int) Input {
	var e []int
	for i := 0; i+1 < L; i++ {
		e = append(e, 2*i, 2*i+2, 2*i+1, 2*i+3)
		switch (rungPattern >> uint(i%3)) & 1 {
		case 1:
			e = append(e, 2*i, 2*i+3)
		default:
			e = append(e, 2*i+1, 2*i+2)
		}
	}
	return relabel(e)
}

func famChain(L int) Input {
	var e []int
	for i := 0; i+1 < L; i++ {
		e = append(e, i, i+1)
	}
	return relabel(e)
}

func famStar(k int, out bool) Input {
	var e []int
	for i := 1; i <= k; i++ {
		if out {
			e = append(e, 0, i)
		} else {
			e = append(e, i, 0)
		}
	}
	return relabel(e)
}

// thetaFamilies: two (three) internally disjoint directed paths from a top node T to a bottom node B with 1..maxLen edges
// each - the inner nodes of the shorter path have slack, which is what vertical balancing, long-edge splitting and the
// tie-breaks of the layerer act on - optionally with one extra node attached by two edges (as a source, as a sink, or
// in between, over every pair of existing nodes), each in 10 edge-list orders (5 stride permutations and their reversals).
func thetaFamilies(maxLen int, three bool) []Input {
	var out []Input
	seen := map[string]bool{}
	add := func(e []int) {
		m := len(e) / 2
		for _, st := range []int{1, 2, 3, 5, 7} {
			idx := make([]int, m)
			for i := range idx {
				idx[i] = i
			}
			sort.SliceStable(idx, func(a, b int) bool { return (idx[a]*st)%m < (idx[b]*st)%m })
			for rev := 0; rev < 2; rev++ {
				p := make([]int, 0, 2*m)
				for j := range idx {
					i := idx[j]
					if rev == 1 {
						i = idx[m-1-j]
					}
					p = append(p, e[2*i], e[2*i+1])
				}
				in := relabel(p)
				k := fmt.Sprint(in.E)
				if !seen[k] {
					seen[k] = true
					out = append(out, in)
				}
			}
		}
	}
	var lens [][]int
	for a := 1; a <= maxLen; a++ {
		for b := 1; b <= maxLen; b++ {
			if !three {
				lens = append(lens, []int{a, b})
				continue
			}
			for c := 1; c <= maxLen; c++ {
				lens = append(lens, []int{a, b, c})
			}
		}
	}
	for _, ls := range lens {
		var e []int
		n := 2 // 0 = T, 1 = B
		for _, l := range ls {
			prev := 0
			for j := 1; j < l; j++ {
				e = append(e, prev, n)
				prev = n
				n++
			}
			e = append(e, prev, 1)
		}
		add(e)
		x := n
		for u := 0; u < n; u++ {
			for v := 0; v < n; v++ {
				if u == v {
					continue
				}
				add(append(append([]int(nil), e...), u, x, x, v))
				if u < v {
					add(append(append([]int(nil), e...), x, u, x, v))
					add(append(append([]int(nil), e...), u, x, v, x))
				}
			}
		}
	}
	return out
}

func spaceList(ins []Input) func(emit func(Input)) {
	return func(emit func(Input)) {
		for _, in := range ins {
			emit(in)
		}
	}
}

// spaceBothOrders presents every input of sp as it is and with its edge list reversed.
func spaceBothOrders(sp func(emit func(Input))) func(emit func(Input)) {
	return func(emit func(Input)) {
		sp(func(in Input) {
			emit(in)
			if in.M() > 1 {
				rev := make([]int, 0, len(in.E))
				for i := len(in.E) - 2; i >= 0; i -= 2 {
					rev = append(rev, in.E[i], in.E[i+1])
				}
				emit(relabel(rev))
			}
		})
	}
}

// spaceRotations presents every input of sp (an edge SET over topologically labelled nodes, in lexicographic order) in
// a family of 4m edge orders: every rotation of the source-major order (u,v), of the target-major order (v,u) and of
// the reverses of both. Sorted orders give every node a monotone adjacency list and visit the nodes in topological
// order; the rotations are the smallest family in which adjacency lists are NOT monotone and the node list does not
// start at a source — what order-dependent traversals (explicit stacks, "first minimum wins", visited flags) need in
// order to go wrong. Node numbers are relabelled in first-occurrence order, as everywhere.
func spaceRotations(sp func(emit func(Input))) func(emit func(Input)) {
	return func(emit func(Input)) {
		sp(func(in Input) {
			m := in.M()
			type ed struct{ u, v int }
			es := make([]ed, m)
			for i := range es {
				es[i] = ed{in.E[2*i], in.E[2*i+1]}
			}
			orders := make([][]ed, 0, 4)
			a := append([]ed(nil), es...)
			sort.Slice(a, func(i, j int) bool { return a[i].u < a[j].u || (a[i].u == a[j].u && a[i].v < a[j].v) })
			b := append([]ed(nil), es...)
			sort.Slice(b, func(i, j int) bool { return b[i].v < b[j].v || (b[i].v == b[j].v && b[i].u < b[j].u) })
			rev := func(x []ed) []ed {
				r := make([]ed, len(x))
				for i := range x {
					r[len(x)-1-i] = x[i]
				}
				return r
			}
			orders = append(orders, a, b, rev(a), rev(b))
			seen := map[string]bool{}
			for _, o := range orders {
				for r := 0; r < m; r++ {
					flat := make([]int, 0, 2*m)
					for i := 0; i < m; i++ {
						e := o[(i+r)%m]
						flat = append(flat, e.u, e.v)
					}
					out := relabel(flat)
					k := fmt.Sprint(out.E)
					if !seen[k] {
						seen[k] = true
						emit(out)
					}
				}
			}
		})
	}
}

// spaceTreeOrders: every ORDERED rooted tree with nMin..nMax nodes (level sequences: Catalan(n-1) trees), as an
// out-tree and as an in-tree, with its edge list in depth-first preorder and in breadth-first order, and every edge list
// obtained from one of those by moving ONE edge to another position (deviation bound 1 from the two canonical orders).
// Edge lists in all orders are out of reach beyond 7 edges; order-dependent slips in the ordering phase need an edge
// that is listed before the edges that lead to it, which one move provides.
func spaceTreeOrders(nMin, nMax int) func(emit func(Input)) {
	return func(emit func(Input)) {
		for n := nMin; n <= nMax; n++ {
			lvl := make([]int, n)
			var rec func(i int)
			rec = func(i int) {
				if i == n {
					parent := make([]int, n)
					for v := 1; v < n; v++ {
						for u := v - 1; u >= 0; u-- {
							if lvl[u] == lvl[v]-1 {
								parent[v] = u
								break
							}
						}
					}
					// depth-first preorder of the edges = increasing child number
					var dfs, bfs [][2]int
					for v := 1; v < n; v++ {
						dfs = append(dfs, [2]int{parent[v], v})
					}
					bfs = append(bfs, dfs...)
					sort.SliceStable(bfs, func(a, b int) bool { return lvl[bfs[a][1]] < lvl[bfs[b][1]] })
					seen := map[string]bool{}
					out := func(es [][2]int) {
						for _, inTree := range []bool{false, true} {
							flat := make([]int, 0, 2*len(es))
							for _, e := range es {
								if inTree {
									flat = append(flat, e[1], e[0])
								} else {
									flat = append(flat, e[0], e[1])
								}
							}
							in := relabel(flat)
							k := fmt.Sprint(in.E)
							if !seen[k] {
								seen[k] = true
								emit(in)
							}
						}
					}
					for _, base := range [][][2]int{dfs, bfs} {
						out(base)
						m := len(base)
						for i := 0; i < m; i++ {
							for j := 0; j < m; j++ {
								if i == j {
									continue
								}
								mv := make([][2]int, 0, m)
								for k, e := range base {
									if k == i {
										continue
									}
									mv = append(mv, e)
								}
								mv = append(mv[:j], append([][2]int{base[i]}, mv[j:]...)...)
								out(mv)
							}
						}
					}
					return
				}
				for l := 1; l <= lvl[i-1]+1; l++ {
					lvl[i] = l
					rec(i + 1)
				}
			}
			if n == 1 {
				continue
			}
			lvl[0] = 0
			rec(1)
		}
	}
}

// spaceDoubled presents every input of sp with ONE of its edges doubled: once as a parallel copy (appended right after
// the edge, and once more at the end of the list) and once as an antiparallel copy at the end. Gadget shapes are simple
// graphs; multi-edges between nodes of two wide adjacent layers only arise this way at that size.
func spaceDoubled(sp func(emit func(Input))) func(emit func(Input)) {
	return func(emit func(Input)) {
		seen := map[string]bool{}
		out := func(flat []int) {
			in := relabel(flat)
			k := fmt.Sprint(in.E)
			if !seen[k] {
				seen[k] = true
				emit(in)
			}
		}
		sp(func(in Input) {
			m := in.M()
			for i := 0; i < m; i++ {
				u, v := in.E[2*i], in.E[2*i+1]
				if u == v {
					continue
				}
				a := append(append(append([]int(nil), in.E[:2*i+2]...), u, v), in.E[2*i+2:]...)
				out(a)
				out(append(append([]int(nil), in.E...), u, v))
				out(append(append([]int(nil), in.E...), v, u))
			}
		})
	}
}

// spaceAllRotations presents every input of sp with its edge list rotated by 1..m-1 positions (the input itself is
// left to sp).
func spaceAllRotations(sp func(emit func(Input))) func(emit func(Input)) {
	return func(emit func(Input)) {
		sp(func(in Input) {
			m := in.M()
			for r := 1; r < m; r++ {
				flat := make([]int, 0, 2*m)
				for i := 0; i < m; i++ {
					j := (i + r) % m
					flat = append(flat, in.E[2*j], in.E[2*j+1])
				}
				emit(relabel(flat))
			}
		})
	}
}

func spaceFilter(sp func(emit func(Input)), keep func(in Input) bool) func(emit func(Input)) {
	return func(emit func(Input)) {
		sp(func(in Input) {
			if keep(in) {
				emit(in)
			}
		})
	}
}

func spaceConcat(sp ...func(emit func(Input))) func(emit func(Input)) {
	return func(emit func(Input)) {
		for _, s := range sp {
			s(emit)
		}
	}
}

// ---- analysis of an input (reference model side: plain graph facts computed from the edge list only)

type Analysis struct {
	N, M      int
	NComp     int
	Comp      []int // component id per node
	DAG       bool  // no directed cycle, self-loops ignored
	Simple    bool  // no parallel / antiparallel / self-loop edges
	SelfLoops int
	Parallel  bool
	AntiPar   bool
	OutTree   bool
	InTree    bool
}

func analyze(in Input) *Analysis {
	n, m := in.N(), in.M()
	a := &Analysis{N: n, M: m, Comp: make([]int, n)}
	par := make([]int, n)
	for i := range par {
		par[i] = i
	}
	var find func(int) int
	find = func(x int) int {
		for par[x] != x {
			par[x] = par[par[x]]
			x = par[x]
		}
		return x
	}
	type pr struct{ u, v int }
	seen := map[pr]int{}
	adj := make([][]int, n)
	indeg := make([]int, n)
	outdeg := make([]int, n)
	for i := 0; i < m; i++ {
		u, v := in.E[2*i], in.E[2*i+1]
		if u == v {
			a.SelfLoops++
			continue
		}
		par[find(u)] = find(v)
		if seen[pr{u, v}] > 0 {
			a.Parallel = true
		}
		if seen[pr{v, u}] > 0 {
			a.AntiPar = true
		}
		seen[pr{u, v}]++
		adj[u] = append(adj[u], v)
		indeg[v]++
		outdeg[u]++
	}
	ids := map[int]int{}
	for i := 0; i < n; i++ {
		r := find(i)
		if _, ok := ids[r]; !ok {
			ids[r] = len(ids)
		}
		a.Comp[i] = ids[r]
	}
	a.NComp = len(ids)
	a.Simple = !a.Parallel && !a.AntiPar && a.SelfLoops == 0
	st := make([]int, n)
	var dfs func(u int) bool
	dfs = func(u int) bool {
		st[u] = 1
		for _, v := range adj[u] {
			if st[v] == 1 {
				return false
			}
			if st[v] == 0 && !dfs(v) {
				return false
			}
		}
		st[u] = 2
		return true
	}
	a.DAG = true
	for u := 0; u < n && a.DAG; u++ {
		if st[u] == 0 && !dfs(u) {
			a.DAG = false
		}
	}
	if a.NComp == 1 && a.Simple && m == n-1 && n >= 2 {
		roots, ok := 0, true
		for i := 0; i < n; i++ {
			if indeg[i] == 0 {
				roots++
			} else if indeg[i] != 1 {
				ok = false
			}
		}
		a.OutTree = ok && roots == 1
		roots, ok = 0, true
		for i := 0; i < n; i++ {
			if outdeg[i] == 0 {
				roots++
			} else if outdeg[i] != 1 {
				ok = false
			}
		}
		a.InTree = ok && roots == 1
	}
	return a
}

func sortedKeys[V any](m map[string]V) []string {
	var k []string
	for s := range m {
		k = append(k, s)
	}
	sort.Strings(k)
	return k
}

// ---- E1m: operation-sequence search over a MACRO alphabet. Where AddEdge sequences stop at 5..7 edges, sequences of
// gadget insertions reach the shapes that need 7..12 edges with a few operations: each operation attaches one gadget
// (a path, a fan of k sources or k sinks, a 3- or 4-cycle, a diamond, a triangle with a long edge) at an existing
// node, or adds one edge between two existing nodes. States are canonicalised like E1 states and deduplicated.
type macroOp struct {
	kind int // 0 edge u->v, 1 u->new, 2 new->u, 3 fan-in 2, 4 fan-in 3, 5 fan-out 2, 6 fan-out 3, 7 3-cycle, 8 4-cycle, 9 diamond, 10 long-edge triangle
	u, v int
}

func applyMacro(e []int, n int, op macroOp) ([]int, int) {
	out := append([]int(nil), e...)
	u := op.u
	switch op.kind {
	case 0:
		out = append(out, u, op.v)
	case 1:
		out = append(out, u, n)
		n++
	case 2:
		out = append(out, n, u)
		n++
	case 3, 4:
		for k := 0; k < op.kind-1; k++ {
			out = append(out, n, u)
			n++
		}
	case 5, 6:
		for k := 0; k < op.kind-3; k++ {
			out = append(out, u, n)
			n++
		}
	case 7:
		out = append(out, u, n, n, n+1, n+1, u)
		n += 2
	case 8:
		out = append(out, u, n, n, n+1, n+1, n+2, n+2, u)
		n += 3
	case 9:
		out = append(out, u, n, u, n+1, n, n+2, n+1, n+2)
		n += 3
	case 10:
		out = append(out, u, n, n, n+1, u, n+1)
		n += 2
	}
	return out, n
}

// spaceMacro enumerates every state reachable by <= depth macro operations from the single node 0; edges between
// existing nodes (kind 0) are only offered when withEdges is set (they multiply the branching factor).
func spaceMacro(depth int, withEdges bool) func(emit func(Input)) {
	return func(emit func(Input)) {
		type st struct {
			e []int
			n int
		}
		seen := map[string]bool{}
		frontier := []st{{nil, 1}}
		for d := 0; d < depth; d++ {
			var next []st
			for _, s := range frontier {
				var ops []macroOp
				for u := 0; u < s.n; u++ {
					for k := 1; k <= 10; k++ {
						ops = append(ops, macroOp{k, u, 0})
					}
					if withEdges {
						for v := 0; v < s.n; v++ {
							if u != v {
								ops = append(ops, macroOp{0, u, v})
							}
						}
					}
				}
				for _, op := range ops {
					e, n := applyMacro(s.e, s.n, op)
					in := relabel(e)
					k := fmt.Sprint(in.E)
					if seen[k] {
						continue
					}
					seen[k] = true
					emit(in)
					next = append(next, st{e, n})
				}
			}
			frontier = next
		}
	}
}

#!/usr/bin/env python3
"""Regenerates the detection tables of DESIGN.md §9 from mutants/results.json, mutants/results-seeded.json and seeded/*/meta.json."""
import json, os, re, glob
V = os.path.dirname(os.path.dirname(os.path.abspath(__file__)))
def load(p):
    try: return json.load(open(p))
    except Exception: return []
out = []
cat = {m["id"]: m for m in load(f"{V}/mutants/catalogue.json")}
res = load(f"{V}/mutants/results.json")
if res:
    out.append("**My own catalogue** (`mutants/catalogue.json`; every entry compiles and passes the 43 repository tests; run: `tools/mutants.py`):\n")
    out.append("| id | change | expected | result of the quick tier (violation classes) |\n|---|---|---|---|")
    for r in res:
        m = cat.get(r["id"], {})
        rr = r["result"]
        if isinstance(rr, dict):
            cls = "; ".join(f"{p}: " + (", ".join(sorted(c["classes"])) if c["classes"] else "silent") for p, c in rr["checks"].items())
        else:
            cls = str(rr)
        note = (m.get("note") or "").replace("|", "/")
        out.append(f"| {r['id']} | {note} | {r['expect']} | {cls} |")
    out.append("")
sres = {r["id"]: r for r in load(f"{V}/mutants/results-seeded.json")}
out.append("**Changes seeded by independent sub-agents** (`seeded/<id>/`: patch.diff, the agent's demonstration test, meta.json; each agent saw only the property's text and a scratch worktree; every change was re-confirmed in a fresh worktree by `tools/seed_intake.py`: applies, builds, the 43 tests pass, the demonstration fails with it and passes without it; run: `tools/mutants.py --seeded`):\n")
out.append("| id | what it needs to manifest | first run | now: quick tier of the property's check |\n|---|---|---|---|")
for d in sorted(glob.glob(f"{V}/seeded/*/")):
    sid = os.path.basename(d.rstrip("/"))
    m = json.load(open(d + "meta.json"))
    r = sres.get(sid)
    now = "(not re-run yet)"
    if r and isinstance(r["result"], dict):
        now = "; ".join(f"{p}: " + (", ".join(sorted(c["classes"])) if c["classes"] else "silent") for p, c in r["result"]["checks"].items())
    if m.get("expect") == "masked":
        now += " — " + m.get("status", "")
    out.append(f"| {sid} | {m.get('needs','').replace('|','/')} | {m.get('first_run','').replace('|','/')} | {now} |")
out.append("")
text = "\n".join(out)
p = f"{V}/DESIGN.md"
s = open(p).read()
a, b = "<!-- detection-table:begin -->", "<!-- detection-table:end -->"
if a in s:
    s = s[:s.index(a) + len(a)] + "\n" + text + "\n" + s[s.index(b):]
    open(p, "w").write(s)
    print("DESIGN.md updated")
else:
    print(text)

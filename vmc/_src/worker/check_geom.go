package main

import (
	"fmt"
	"math"
	"sort"

	"github.com/nulab/autog/internal/geom"
)

// ---- E5: corridor enumeration. A case is encoded in Input.E as
//   [k, L1,R1,H1, ..., Lk,Rk,Hk, sx, sy, ex, ey]   (integers; rectangle i spans x in [Li,Ri], y in [Yi, Yi+Hi])

type corridor struct {
	L, R, Y []float64 // Y has k+1 entries
	s, t    geom.P
}

func decodeCorridor(e []int) corridor {
	k := e[0]
	c := corridor{Y: []float64{0}}
	for i := 0; i < k; i++ {
		c.L = append(c.L, float64(e[1+3*i]))
		c.R = append(c.R, float64(e[2+3*i]))
		c.Y = append(c.Y, c.Y[i]+float64(e[3+3*i]))
	}
	o := 1 + 3*k
	// end point coordinates are given in tenths
	c.s = geom.P{X: float64(e[o]) / 10, Y: float64(e[o+1]) / 10}
	c.t = geom.P{X: float64(e[o+2]) / 10, Y: float64(e[o+3]) / 10}
	if len(e) == o+6 {
		// translated corridor: the two trailing numbers move everything away from the origin (a corridor inside a layout
		// never starts at (0,0): its top is the bottom of the source node)
		dx, dy := float64(e[o+4]), float64(e[o+5])
		for i := range c.L {
			c.L[i] += dx
			c.R[i] += dx
		}
		for i := range c.Y {
			c.Y[i] += dy
		}
		c.s.X, c.s.Y, c.t.X, c.t.Y = c.s.X+dx, c.s.Y+dy, c.t.X+dx, c.t.Y+dy
	}
	return c
}

// longCorridors: structured families of corridors with 2..nmax rectangles (what the grid enumeration cannot reach:
// k <= 5 there): arcs bulging left / right (the path bends around many corners of ONE chain in a row), staircases in
// both directions, zigzags, funnels narrowing and widening, each with 3 x 3 general-position end points in the first
// and last rectangle.
func longCorridors(nmax int) func(emit func(Input)) {
	return func(emit func(Input)) {
		type shape func(n, i int) (l, r int)
		shapes := []shape{
			func(n, i int) (int, int) { d := 2*i - (n - 1); return 200 - 3*d*d/8, 400 },     // arc: left side bulges left in the middle
			func(n, i int) (int, int) { d := 2*i - (n - 1); return 0, 200 + 3*d*d/8 },       // arc: right side bulges right at the ends
			func(n, i int) (int, int) { d := 2*i - (n - 1); return 3 * d * d / 8, 400 },     // arc: left side bulges right in the middle
			func(n, i int) (int, int) { d := 2*i - (n - 1); return 0, 400 - 3*d*d/8 },       // arc: right side bulges left at the ends
			func(n, i int) (int, int) { return 20 * i, 20*i + 70 },                          // staircase to the right
			func(n, i int) (int, int) { return 20 * (n - 1 - i), 20*(n-1-i) + 70 },          // staircase to the left
			func(n, i int) (int, int) { return 40 * (i % 2), 100 + 40*(i%2) },               // zigzag
			func(n, i int) (int, int) { return 7 * i, 400 - 7*i },                           // funnel, narrowing
			func(n, i int) (int, int) { return 7 * (n - 1 - i), 400 - 7*(n-1-i) },           // funnel, widening
			func(n, i int) (int, int) { return 30 * ((i + 1) / 2 % 2), 90 + 30*(i/2%2) },    // meander: sides step alternately
			func(n, i int) (int, int) { return 13 * ((i * 5) % 7), 200 + 11*((i*3)%5) },     // irregular, both sides
		}
		for n := 2; n <= nmax; n++ {
			for _, sh := range shapes {
				e := []int{n}
				ok := true
				var L, R []int
				for i := 0; i < n; i++ {
					l, r := sh(n, i)
					if r-l < 20 || (i > 0 && (max(l, L[i-1]) >= min(r, R[i-1]))) {
						ok = false
						break
					}
					L, R = append(L, l), append(R, r)
					e = append(e, l, r, 30)
				}
				if !ok {
					continue
				}
				w0, wk := (R[0]-L[0])*10, (R[n-1]-L[n-1])*10
				sxs := []int{L[0]*10 + 13, L[0]*10 + w0/2 + 7, R[0]*10 - 21}
				exs := []int{L[n-1]*10 + 17, L[n-1]*10 + wk/2 - 9, R[n-1]*10 - 11}
				for _, sx := range sxs {
					for _, ex := range exs {
						for _, yy := range [][2]int{{23, (n-1)*300 + 277}, {141, (n-1)*300 + 89}} {
							c := append(append([]int(nil), e...), sx, yy[0], ex, yy[1])
							if decodeCorridor(c).degenerate() {
								continue
							}
							emit(Input{E: c})
						}
					}
				}
			}
		}
	}
}

// spaceTranslated presents every corridor of sp moved by (dx, dy).
func spaceTranslated(sp func(emit func(Input)), dx, dy int) func(emit func(Input)) {
	return func(emit func(Input)) {
		sp(func(in Input) {
			emit(Input{E: append(append([]int(nil), in.E...), dx, dy)})
		})
	}
}

// degenerate: the start or end point is collinear with two other points among {corridor vertices, the other end
// point} — which includes every position on the corridor boundary. The orientation predicates of the funnel
// algorithm return "collinear" on such inputs.
func (c corridor) degenerate() bool {
	var pts []geom.P
	for i := range c.L {
		pts = append(pts, geom.P{X: c.L[i], Y: c.Y[i]}, geom.P{X: c.R[i], Y: c.Y[i]}, geom.P{X: c.L[i], Y: c.Y[i+1]}, geom.P{X: c.R[i], Y: c.Y[i+1]})
	}
	for k, p := range []geom.P{c.s, c.t} {
		others := append(append([]geom.P(nil), pts...), []geom.P{c.t, c.s}[k])
		for i := range others {
			for j := i + 1; j < len(others); j++ {
				a, b := others[i], others[j]
				if a == b {
					continue
				}
				if d := (b.X-a.X)*(p.Y-a.Y) - (b.Y-a.Y)*(p.X-a.X); math.Abs(d) < 1e-9 {
					return true
				}
			}
		}
	}
	return false
}

func (c corridor) rects() []geom.Rect {
	var rs []geom.Rect
	for i := range c.L {
		rs = append(rs, geom.Rect{TL: geom.P{X: c.L[i], Y: c.Y[i]}, BR: geom.P{X: c.R[i], Y: c.Y[i+1]}})
	}
	return rs
}

func (c corridor) String() string {
	s := ""
	for i := range c.L {
		s += fmt.Sprintf("[x %g..%g, y %g..%g] ", c.L[i], c.R[i], c.Y[i], c.Y[i+1])
	}
	return s + fmt.Sprintf("start=(%g,%g) end=(%g,%g)", c.s.X, c.s.Y, c.t.X, c.t.Y)
}

// cornerEndpoint: the start or the end point coincides with a corner of one of the rectangles.
func (c corridor) cornerEndpoint() bool {
	for _, p := range []geom.P{c.s, c.t} {
		for i := range c.L {
			if (p.X == c.L[i] || p.X == c.R[i]) && (p.Y == c.Y[i] || p.Y == c.Y[i+1]) {
				return true
			}
		}
	}
	return false
}

// productionLike: the start point lies on the TOP side of the first rectangle and the end point on the BOTTOM side of the
// last one, both strictly between the corners — where the Splines router puts them (bottom-centre of the source node,
// top-centre of the target node). These positions are degenerate in the sense of degenerate() (collinear with the two
// corners of their side) but geom.Shortest handles all of them correctly on the pinned tree, so they are NOT part of the
// known-finding class: a failure there is reported.
func (c corridor) productionLike() bool {
	k := len(c.L) - 1
	return c.s.Y == c.Y[0] && c.s.X > c.L[0] && c.s.X < c.R[0] && c.t.Y == c.Y[k+1] && c.t.X > c.L[k] && c.t.X < c.R[k]
}

// boundaryEndpoint: the start point lies on a side of the first rectangle or the end point on a side of the last one.
func (c corridor) boundaryEndpoint() bool {
	k := len(c.L) - 1
	return c.s.X == c.L[0] || c.s.X == c.R[0] || c.s.Y == c.Y[0] || c.s.Y == c.Y[1] ||
		c.t.X == c.L[k] || c.t.X == c.R[k] || c.t.Y == c.Y[k] || c.t.Y == c.Y[k+1]
}

// boundaryVertexEndpoint: an endpoint coincides with a vertex of the merged corridor polygon, including the points
// where the side of one rectangle meets the horizontal side of its neighbour.
const geps = 1e-9

func (c corridor) insideUnion(p geom.P) bool {
	for i := range c.L {
		if p.Y >= c.Y[i]-geps && p.Y <= c.Y[i+1]+geps && p.X >= c.L[i]-geps && p.X <= c.R[i]+geps {
			return true
		}
	}
	return false
}

// segInside: exact for segments between points of the corridor: the segment is inside iff, within every rectangle's
// y-range it passes through, it stays between that rectangle's sides (checked at the two ends of the sub-range).
func (c corridor) segInside(a, b geom.P) bool {
	if !c.insideUnion(a) || !c.insideUnion(b) {
		return false
	}
	if a.Y == b.Y {
		// horizontal: the covered x-range at that y must be one interval containing both
		lo, hi := math.Min(a.X, b.X), math.Max(a.X, b.X)
		type iv struct{ l, r float64 }
		var ivs []iv
		for i := range c.L {
			if a.Y >= c.Y[i]-geps && a.Y <= c.Y[i+1]+geps {
				ivs = append(ivs, iv{c.L[i], c.R[i]})
			}
		}
		sort.Slice(ivs, func(i, j int) bool { return ivs[i].l < ivs[j].l })
		cov := lo
		for _, v := range ivs {
			if v.l <= cov+geps && v.r > cov {
				cov = v.r
			}
		}
		return cov >= hi-geps
	}
	if a.Y > b.Y {
		a, b = b, a
	}
	xat := func(y float64) float64 { return a.X + (y-a.Y)/(b.Y-a.Y)*(b.X-a.X) }
	for i := range c.L {
		y0, y1 := math.Max(a.Y, c.Y[i]), math.Min(b.Y, c.Y[i+1])
		if y0 < y1 {
			for _, y := range []float64{y0, y1} {
				if x := xat(y); x < c.L[i]-geps || x > c.R[i]+geps {
					return false
				}
			}
		}
	}
	return true
}

// shortestLen: reference model — Dijkstra on the visibility graph of the corridor's vertices.
func (c corridor) shortestLen() float64 {
	pts := []geom.P{c.s, c.t}
	for i := range c.L {
		pts = append(pts, geom.P{X: c.L[i], Y: c.Y[i]}, geom.P{X: c.R[i], Y: c.Y[i]}, geom.P{X: c.L[i], Y: c.Y[i+1]}, geom.P{X: c.R[i], Y: c.Y[i+1]})
	}
	n := len(pts)
	d := make([]float64, n)
	for i := range d {
		d[i] = math.Inf(1)
	}
	d[0] = 0
	done := make([]bool, n)
	for {
		u := -1
		for i := range d {
			if !done[i] && (u < 0 || d[i] < d[u]) {
				u = i
			}
		}
		if u < 0 || math.IsInf(d[u], 1) {
			break
		}
		done[u] = true
		for v := range pts {
			if !done[v] && c.segInside(pts[u], pts[v]) {
				if nd := d[u] + math.Hypot(pts[u].X-pts[v].X, pts[u].Y-pts[v].Y); nd < d[v] {
					d[v] = nd
				}
			}
		}
	}
	return d[1]
}

func (c corridor) distToUnion(p geom.P) float64 {
	best := math.Inf(1)
	for i := range c.L {
		dx := math.Max(math.Max(c.L[i]-p.X, 0), p.X-c.R[i])
		dy := math.Max(math.Max(c.Y[i]-p.Y, 0), p.Y-c.Y[i+1])
		best = math.Min(best, math.Hypot(dx, dy))
	}
	return best
}

// corridorSpace enumerates all well-formed stacks of 1..k rectangles with sides on the grid xs and heights from hs.
// general = true: 6 x 6 start/end positions in general position (off-grid offsets inside the first/last rectangle);
// general = false: the 9 x 9 degenerate positions (corners, side midpoints, centre) of the first/last rectangle.
func corridorSpace(kmax int, xs []int, hs []int, general bool) func(emit func(Input)) {
	return corridorSpaceD(kmax, xs, hs, general, false)
}

// dense: 15 x 15 instead of 6 x 6 general-position end points per corridor
func corridorSpaceD(kmax int, xs []int, hs []int, general, dense bool) func(emit func(Input)) {
	return func(emit func(Input)) {
		for k := 1; k <= kmax; k++ {
			L, R, H := make([]int, k), make([]int, k), make([]int, k)
			var rec func(i int)
			rec = func(i int) {
				if i == k {
					ybot := 0
					for _, h := range H {
						ybot += h
					}
					ylast := ybot - H[k-1]
					var sxs, sys, exs, eys []int
					if general {
						w0, wk := (R[0]-L[0])*10, (R[k-1]-L[k-1])*10
						sxs = []int{L[0]*10 + 13, L[0]*10 + w0*3/10 + 3, (L[0]+R[0])*5 + 7, L[0]*10 + w0*7/10 - 3, R[0]*10 - 21}
						sys = []int{23, H[0]*5 + 7, H[0]*10 - 31}
						exs = []int{L[k-1]*10 + 17, L[k-1]*10 + wk*3/10 - 7, (L[k-1]+R[k-1])*5 - 9, L[k-1]*10 + wk*7/10 + 9, R[k-1]*10 - 11}
						eys = []int{ylast*10 + 19, (ylast+ybot)*5 - 11, ybot*10 - 27}
						if !dense {
							sxs, sys = []int{sxs[0], sxs[2], sxs[4]}, []int{sys[0], sys[2]}
							exs, eys = []int{exs[0], exs[2], exs[4]}, []int{eys[0], eys[2]}
						}
					} else {
						sxs = []int{L[0] * 10, (L[0] + R[0]) * 5, R[0] * 10}
						sys = []int{0, H[0] * 5, H[0] * 10}
						exs = []int{L[k-1] * 10, (L[k-1] + R[k-1]) * 5, R[k-1] * 10}
						eys = []int{ylast * 10, (ylast + ybot) * 5, ybot * 10}
					}
					for _, sx := range sxs {
						for _, sy := range sys {
							for _, ex := range exs {
								for _, ey := range eys {
									e := []int{k}
									for j := 0; j < k; j++ {
										e = append(e, L[j], R[j], H[j])
									}
									e = append(e, sx, sy, ex, ey)
									if general && decodeCorridor(e).degenerate() {
										continue // not in general position after all: belongs to the other pass's class
									}
									emit(Input{E: e})
								}
							}
						}
					}
					return
				}
				for a := 0; a < len(xs); a++ {
					for b := a + 1; b < len(xs); b++ {
						if i > 0 {
							lo, hi := max(L[i-1], xs[a]), min(R[i-1], xs[b])
							if lo >= hi {
								continue // consecutive rectangles must share a boundary segment of positive length
							}
						}
						for _, h := range hs {
							L[i], R[i], H[i] = xs[a], xs[b], h
							rec(i + 1)
						}
					}
				}
			}
			rec(0)
		}
	}
}

// productionSpace: every well-formed stack of 1..k rectangles x every start position on the top side of the first and
// every end position on the bottom side of the last rectangle on a grid of `step` units, corners excluded — including
// start and end vertically aligned with each other and with corridor vertices.
func productionSpace(kmax int, xs []int, step int) func(emit func(Input)) {
	return func(emit func(Input)) {
		for k := 1; k <= kmax; k++ {
			L, R := make([]int, k), make([]int, k)
			var rec func(i int)
			rec = func(i int) {
				if i == k {
					for sx := L[0] + step; sx < R[0]; sx += step {
						for ex := L[k-1] + step; ex < R[k-1]; ex += step {
							e := []int{k}
							for j := 0; j < k; j++ {
								e = append(e, L[j], R[j], 10)
							}
							e = append(e, sx*10, 0, ex*10, k*100)
							emit(Input{E: e})
						}
					}
					return
				}
				for a := 0; a < len(xs); a++ {
					for b := a + 1; b < len(xs); b++ {
						if i > 0 {
							if lo, hi := max(L[i-1], xs[a]), min(R[i-1], xs[b]); lo >= hi {
								continue
							}
						}
						L[i], R[i] = xs[a], xs[b]
						rec(i + 1)
					}
				}
			}
			rec(0)
		}
	}
}

type geomRes struct {
	path  []geom.P
	panic string
	fn    string
}

func runShortest(c corridor) (r geomRes) {
	defer func() {
		if e := recover(); e != nil {
			r.panic = fmt.Sprint(e)
			r.fn = panicSite()
		}
	}()
	r.path = geom.Shortest(c.s, c.t, c.rects())
	return
}

func evalC19(x *Ctx, in Input) {
	if !x.Unit(nil) {
		return
	}
	c := decodeCorridor(in.E)
	x.st.Evaluations++
	x.st.PassEvals[x.pass.Name]++
	atomicBeat()
	r := runShortest(c)
	x.Hist("degenerate-position", c.degenerate())
	if r.panic != "" {
		x.Violate("panic:"+r.fn+":"+msgClass(r.panic), nil, nil, "Shortest panicked: "+r.panic+"\ncorridor: "+c.String())
		return
	}
	p := r.path
	x.Hist("path-points", len(p))
	obs := []byte(fmt.Sprint(p))
	x.Validate(obs)
	if len(p) < 2 || p[0] != c.t || p[len(p)-1] != c.s {
		x.Violate("C19:endpoints", nil, nil, fmt.Sprintf("path %v does not run from the end point to the start point\ncorridor: %s", p, c))
		return
	}
	length := 0.0
	for i := 1; i < len(p); i++ {
		if !c.segInside(p[i-1], p[i]) {
			x.Violate("C19:outside-corridor", nil, nil, fmt.Sprintf("segment %v-%v of path %v leaves the corridor\ncorridor: %s", p[i-1], p[i], p, c))
			return
		}
		length += math.Hypot(p[i].X-p[i-1].X, p[i].Y-p[i-1].Y)
	}
	want := c.shortestLen()
	if math.Abs(length-want) > 1e-9*(1+want) {
		x.Violate("C19:not-shortest", nil, nil, fmt.Sprintf("path %v has length %.9g, the shortest path inside the corridor has length %.9g\ncorridor: %s", p, length, want, c))
		return
	}
	if len(p) >= 3 {
		x.Nontrivial(obs)
	}
	x.Sample(map[string]any{"corridor": c.String(), "path": fmt.Sprint(p)})
}

func atomicBeat() { wdBeatAdd() }

// ---- C20: spline fitting on the shortest paths of E5, and the root finder on E6

func bez(cp [][2]float64, t float64) geom.P {
	u := 1 - t
	b0, b1, b2, b3 := u*u*u, 3*u*u*t, 3*u*t*t, t*t*t
	return geom.P{X: b0*cp[0][0] + b1*cp[1][0] + b2*cp[2][0] + b3*cp[3][0], Y: b0*cp[0][1] + b1*cp[1][1] + b2*cp[2][1] + b3*cp[3][1]}
}

func evalC20Fit(x *Ctx, in Input) {
	if !x.Unit(nil) {
		return
	}
	c := decodeCorridor(in.E)
	r := runShortest(c)
	if r.panic != "" || len(r.path) < 3 {
		return // C19's business / straight path: nothing to fit
	}
	p := r.path
	// only paths that C19 accepts
	length := 0.0
	for i := 1; i < len(p); i++ {
		if !c.segInside(p[i-1], p[i]) {
			return
		}
		length += math.Hypot(p[i].X-p[i-1].X, p[i].Y-p[i-1].Y)
	}
	if want := c.shortestLen(); math.Abs(length-want) > 1e-9*(1+want) || p[0] != c.t || p[len(p)-1] != c.s {
		return
	}
	x.st.Evaluations++
	x.st.PassEvals[x.pass.Name]++
	atomicBeat()
	var pieces [][][2]float64
	var pan, fn string
	func() {
		defer func() {
			if e := recover(); e != nil {
				pan, fn = fmt.Sprint(e), panicSite()
			}
		}()
		poly := geom.MergeRects(c.rects())
		for _, cp := range geom.FitSpline(p, geom.P{}, geom.P{}, poly.Sides()) {
			pieces = append(pieces, cp.Float64Slice())
		}
	}()
	if pan != "" {
		x.Violate("panic:"+fn+":"+msgClass(pan), nil, nil, "FitSpline panicked: "+pan+"\ncorridor: "+c.String()+"\npath: "+fmt.Sprint(p))
		return
	}
	obs := []byte(fmt.Sprint(pieces))
	x.Validate(obs)
	x.Hist("spline-pieces", len(pieces))
	if len(pieces) == 0 {
		x.Violate("C20:no-pieces", nil, nil, "FitSpline returned no piece\ncorridor: "+c.String())
		return
	}
	first, last := pieces[0], pieces[len(pieces)-1]
	if (geom.P{X: first[0][0], Y: first[0][1]}) != p[0] || (geom.P{X: last[3][0], Y: last[3][1]}) != p[len(p)-1] {
		x.Violate("C20:endpoints", nil, nil, fmt.Sprintf("spline starts at %v and ends at %v, path runs from %v to %v\ncorridor: %s", first[0], last[3], p[0], p[len(p)-1], c))
	}
	for i := 1; i < len(pieces); i++ {
		if pieces[i][0] != pieces[i-1][3] {
			x.Violate("C20:join", nil, nil, fmt.Sprintf("piece %d starts at %v but piece %d ends at %v\ncorridor: %s", i, pieces[i][0], i-1, pieces[i-1][3], c))
		}
	}
	worst := 0.0
	for _, cp := range pieces {
		for k := 0; k <= 400; k++ {
			q := bez(cp, float64(k)/400)
			if !finite(q.X) || !finite(q.Y) {
				x.Violate("C20:non-finite", nil, nil, fmt.Sprintf("curve point is not finite: control points %v\ncorridor: %s", cp, c))
				return
			}
			if d := c.distToUnion(q); d > worst {
				worst = d
			}
		}
	}
	if worst > 0.05 {
		x.Violate("C20:outside-corridor", nil, nil, fmt.Sprintf("the fitted curve leaves the corridor by %.4g (> 0.05)\ncorridor: %s\npath: %v\npieces: %v", worst, c, p, pieces))
	}
	x.Nontrivial(obs)
	x.Sample(map[string]any{"corridor": c.String(), "pieces": len(pieces)})
}

// E6: polynomials built from chosen roots. Input.E = [family, a, b, c, lead] (indices into the grids below)
var rootGrid = []float64{-2, -1, -0.5, 0, 0.25, 0.5, 1, 2, 3}
var leadGrid = []float64{1, -2, 0.5}
var imGrid = []float64{0.5, 1, 2}

func polySpace() func(emit func(Input)) {
	return func(emit func(Input)) {
		n := len(rootGrid)
		for l := range leadGrid {
			for a := 0; a < n; a++ {
				for b := a; b < n; b++ {
					for c := b; c < n; c++ {
						emit(Input{E: []int{0, a, b, c, l}}) // three real roots (multiset)
					}
					emit(Input{E: []int{2, a, b, 0, l}}) // quadratic, two real roots
				}
				for p := 0; p < n; p++ {
					for q := range imGrid {
						emit(Input{E: []int{1, a, p, q, l}}) // one real root + complex pair p +- qi
					}
				}
				emit(Input{E: []int{4, a, 0, 0, l}}) // linear
			}
			for p := 0; p < n; p++ {
				for q := range imGrid {
					emit(Input{E: []int{3, p, q, 0, l}}) // quadratic, complex pair
				}
			}
		}
		// vanishing leading coefficient around the solver's epsilon, on top of every quadratic with two real roots
		// (two DISTINCT roots only: a double root of the quadratic part splits into a complex pair or into two roots
		// sqrt(eps) apart under the cubic perturbation, so the quadratic's roots are no reference there)
		for e := 0; e < 7; e++ {
			for a := 0; a < n; a++ {
				for b := a + 1; b < n; b++ {
					emit(Input{E: []int{5, a, b, e, 0}})
				}
			}
		}
		emit(Input{E: []int{6, 0, 0, 0, 0}}) // constant polynomials
		emit(Input{E: []int{6, 1, 0, 0, 0}})
	}
}

func evalC20Roots(x *Ctx, in Input) {
	if !x.Unit(nil) {
		return
	}
	e := in.E
	var coeff []float64 // c0..c3
	var truth []float64 // real roots (with multiplicity)
	tol := 1e-6
	lead := leadGrid[e[4]]
	mul := func(p []float64, r float64) []float64 { // p * (x - r)
		out := make([]float64, len(p)+1)
		for i, c := range p {
			out[i+1] += c
			out[i] -= c * r
		}
		return out
	}
	pad := func(p []float64) []float64 {
		for len(p) < 4 {
			p = append(p, 0)
		}
		return p
	}
	desc := ""
	switch e[0] {
	case 0:
		r := []float64{rootGrid[e[1]], rootGrid[e[2]], rootGrid[e[3]]}
		coeff = mul(mul(mul([]float64{lead}, r[0]), r[1]), r[2])
		truth = r
		desc = fmt.Sprintf("%g(x-%g)(x-%g)(x-%g)", lead, r[0], r[1], r[2])
	case 1:
		r, p, q := rootGrid[e[1]], rootGrid[e[2]], imGrid[e[3]]
		quad := []float64{lead * (p*p + q*q), lead * (-2 * p), lead}
		coeff = mul(quad, r)
		truth = []float64{r}
		desc = fmt.Sprintf("%g(x-%g)((x-%g)^2+%g^2)", lead, r, p, q)
	case 2:
		r := []float64{rootGrid[e[1]], rootGrid[e[2]]}
		coeff = pad(mul(mul([]float64{lead}, r[0]), r[1]))
		truth = r
		desc = fmt.Sprintf("%g(x-%g)(x-%g)", lead, r[0], r[1])
	case 3:
		p, q := rootGrid[e[1]], imGrid[e[2]]
		coeff = pad([]float64{lead * (p*p + q*q), lead * (-2 * p), lead})
		desc = fmt.Sprintf("%g((x-%g)^2+%g^2)", lead, p, q)
	case 4:
		r := rootGrid[e[1]]
		coeff = pad(mul([]float64{lead}, r))
		truth = []float64{r}
		desc = fmt.Sprintf("%g(x-%g)", lead, r)
	case 5:
		eps := geom.VerifEpsilon3
		a3 := []float64{0, 0.5 * eps, -0.5 * eps, eps, -eps, 2 * eps, -2 * eps}[e[3]]
		r := []float64{rootGrid[e[1]], rootGrid[e[2]]}
		coeff = pad(mul(mul([]float64{1}, r[0]), r[1]))
		coeff[3] = a3
		truth = r
		if math.Abs(a3) >= eps {
			// the true roots of the cubic: Newton refinement from the quadratic's roots and from the far root -a2/a3
			truth = nil
			for _, x0 := range []float64{r[0], r[1], -coeff[2] / a3} {
				xr := x0
				for it := 0; it < 60; it++ {
					f := coeff[0] + xr*(coeff[1]+xr*(coeff[2]+xr*coeff[3]))
					df := coeff[1] + xr*(2*coeff[2]+xr*3*coeff[3])
					if df == 0 {
						break
					}
					xr -= f / df
				}
				truth = append(truth, xr)
			}
		}
		desc = fmt.Sprintf("%g x^3 + (x-%g)(x-%g)", a3, r[0], r[1])
	case 6:
		coeff = []float64{float64(e[1]), 0, 0, 0}
		desc = fmt.Sprintf("constant %d", e[1])
	}
	x.st.Evaluations++
	x.st.PassEvals[x.pass.Name]++
	var got []float64
	var pan string
	func() {
		defer func() {
			if r := recover(); r != nil {
				pan = fmt.Sprint(r)
			}
		}()
		got = geom.VerifSolve3(append([]float64(nil), coeff...))
	}()
	if pan != "" {
		x.Violate("panic:geom.solve3:"+msgClass(pan), nil, nil, "solve3 panicked on "+desc+": "+pan)
		return
	}
	x.Validate([]byte(fmt.Sprint(got)))
	for _, g := range got {
		ok := false
		for _, w := range truth {
			if math.Abs(g-w) <= tol*(1+math.Abs(w)) {
				ok = true
			}
		}
		if !ok {
			x.Violate("C20:root-finder-spurious", nil, nil, fmt.Sprintf("solve3 returned %v for %s (coefficients %v): %g is not a root (real roots: %v)", got, desc, coeff, g, truth))
			return
		}
	}
	for i, w := range truth {
		simple := true
		for j, v := range truth {
			if i != j && v == w {
				simple = false
			}
		}
		if !simple {
			continue // a multiple root may legitimately be returned or not (it disappears under a 1-ulp perturbation)
		}
		found := false
		for _, g := range got {
			if math.Abs(g-w) <= tol*(1+math.Abs(w)) {
				found = true
			}
		}
		if !found {
			x.Violate("C20:root-finder-missed", nil, nil, fmt.Sprintf("solve3 returned %v for %s (coefficients %v): the simple real root %g is missing", got, desc, coeff, w))
			return
		}
	}
	x.Nontrivial([]byte(desc))
	x.Sample(map[string]any{"polynomial": desc, "roots": got})
}

func init() {
	inputPreds["near-epsilon-leading-coefficient"] = func(in Input, c *Cfg) bool {
		return len(in.E) == 5 && in.E[0] == 5 && in.E[3] >= 3
	}
	// aligned shallow notch: two non-adjacent rectangles have the same left (right) side coordinate and a rectangle between
	// them reaches further in by d, with d at most 1/8 of the vertical distance h between the two aligned corners. A
	// straight vertical piece between the two aligned corners then passes exactly through both of them — which the
	// fitter's containment test forgives as "touching a vertex" (squared distance < epsilon1) — and runs through the notch,
	// outside the corridor; a deep notch makes the path so much longer than the piece that the fitter's length test
	// rejects the piece first.
	inputPreds["aligned-shallow-notch"] = func(in Input, c *Cfg) bool {
		if len(in.E) < 8 || (len(in.E) != 5+3*in.E[0] && len(in.E) != 7+3*in.E[0]) {
			return false
		}
		cr := decodeCorridor(in.E)
		k := len(cr.L)
		for i := 0; i < k; i++ {
			for j := i + 2; j < k; j++ {
				h := cr.Y[j] - cr.Y[i+1]
				if cr.L[i] == cr.L[j] {
					d := 0.0
					for m := i + 1; m < j; m++ {
						d = math.Max(d, cr.L[m]-cr.L[i])
					}
					if d > 0 && d <= h/8 {
						return true
					}
				}
				if cr.R[i] == cr.R[j] {
					d := 0.0
					for m := i + 1; m < j; m++ {
						d = math.Max(d, cr.R[i]-cr.R[m])
					}
					if d > 0 && d <= h/8 {
						return true
					}
				}
			}
		}
		return false
	}
	inputPreds["degenerate-position"] = func(in Input, c *Cfg) bool {
		if len(in.E) < 8 || (len(in.E) != 5+3*in.E[0] && len(in.E) != 7+3*in.E[0]) {
			return false
		}
		cr := decodeCorridor(in.E)
		return cr.degenerate() && !cr.productionLike()
	}
	grid5 := []int{0, 10, 20, 30, 40}
	grid6 := []int{0, 10, 20, 30, 40, 50}
	checks["C19"] = func(tier string) []*Pass {
		ps := []*Pass{
			{Name: "degenerate-k2", Space: corridorSpace(2, []int{0, 10, 20, 30}, []int{10}, false), Eval: evalC19, BudgetS: 3, HeapMB: 48,
				Bound: "every stack of 1..2 rectangles on a 4-value grid x the 9 x 9 degenerate start/end positions (corners, side midpoints, centres): the known-finding class"},
			{Name: "production-like-k4", Space: productionSpace(4, grid5, 5), Eval: evalC19, BudgetS: 5, HeapMB: 256,
				Bound: "every well-formed stack of 1..4 rectangles on the 5-value grid x every start position on the top side of the first and end position on the bottom side of the last rectangle (5-unit grid, corners excluded; vertically aligned pairs included): the positions the Splines router produces"},
			{Name: "general-k3-dense", Space: corridorSpaceD(3, grid5, []int{10}, true, true), Eval: evalC19, BudgetS: 5, HeapMB: 256,
				Bound: "every well-formed stack of 1..3 rectangles on the 5-value grid x 15 start x 15 end positions in general position"},
			{Name: "general-k4", Space: corridorSpace(4, grid5, []int{10}, true), Eval: evalC19, BudgetS: 5, HeapMB: 256,
				Bound: "every well-formed stack of 1..4 rectangles with sides on a 5-value grid (equal edges, widening and narrowing on both sides included) x 6 start x 6 end positions in general position (not collinear with two corridor vertices or with a vertex and the other end point)"},
		}
		ps = append(ps, &Pass{Name: "long-corridors", Space: longCorridors(tierPick(tier, 24, 40)), Eval: evalC19, BudgetS: 5, HeapMB: 256,
			Bound: fmt.Sprintf("11 structured families of corridors (arcs bulging either way on either side, staircases, zigzag, funnels, meander, irregular) with 2..%d rectangles x 3 x 3 x 2 general-position end points: paths that bend around many corners of one chain in a row", tierPick(tier, 24, 40))})
		ps = append(ps, &Pass{Name: "general-k3-tall", Space: corridorSpaceD(3, grid5, []int{10, 70}, true, false), Eval: evalC19, BudgetS: 5, HeapMB: 256,
			Bound: "every well-formed stack of 1..3 rectangles on the 5-value grid with heights from {10, 70} x 6 x 6 general-position end points"})
		ps = append(ps, &Pass{Name: "general-k3-wide", Space: corridorSpaceD(3, []int{0, 60, 120, 180, 240}, []int{10}, true, true), Eval: evalC19, BudgetS: 5, HeapMB: 256,
			Bound: "every well-formed stack of 1..3 rectangles with sides on {0,60,120,180,240} and height 10 (shallow segments that leave a narrow first/last rectangle sideways) x 15 x 15 general-position end points"})
		if tier == "thorough" {
			ps = append(ps,
				&Pass{Name: "general-k5", Space: corridorSpace(5, grid5, []int{10}, true), Eval: evalC19, BudgetS: 5, HeapMB: 256,
					Bound: "every well-formed stack of 1..5 rectangles on the 5-value grid x general-position end points"},
				&Pass{Name: "general-k3-heights", Space: corridorSpace(3, grid6, []int{4, 10}, true), Eval: evalC19, BudgetS: 5, HeapMB: 256,
					Bound: "stacks of 1..3 rectangles on a 6-value grid with heights from {4,10} x general-position end points"})
		}
		return ps
	}
	checks["C20"] = func(tier string) []*Pass {
		ps := []*Pass{
			{Name: "roots", Space: polySpace(), Eval: evalC20Roots,
				Bound: "every cubic with a multiset of 3 real roots from a 9-value dyadic grid, every (real root, complex pair), quadratics, linears, constants x leading coefficients {1,-2,0.5}; vanishing leading coefficient {0,+-0.5e,+-e,+-2e} around the solver's epsilon"},
			{Name: "fit-production-like-k4", Space: productionSpace(4, grid5, 5), Eval: evalC20Fit, BudgetS: 5, HeapMB: 256,
				Bound: "every corridor of the C19 production-like space (start on the top side, end on the bottom side, k<=4) whose shortest path has >= 3 points: spline fitted, 401 samples per piece"},
			{Name: "fit-k4", Space: corridorSpace(4, grid5, []int{10}, true), Eval: evalC20Fit, BudgetS: 5, HeapMB: 256,
				Bound: "every corridor of the C19 general-position space (k<=4) whose (correct) shortest path has >= 3 points: spline fitted, 401 samples per piece"},
		}
		ps = append(ps, &Pass{Name: "fit-k3-translated", Space: spaceTranslated(corridorSpaceD(3, grid5, []int{10}, true, true), 57, 23), Eval: evalC20Fit, BudgetS: 5, HeapMB: 256,
			Bound: "every corridor of 1..3 rectangles on the 5-value grid (rectangles that share a side coordinate included) x 15 x 15 general-position end points, moved away from the origin by (57, 23) — where a corridor inside a layout lies"})
		ps = append(ps, &Pass{Name: "fit-long-corridors", Space: longCorridors(tierPick(tier, 24, 40)), Eval: evalC20Fit, BudgetS: 10, HeapMB: 256,
			Bound: fmt.Sprintf("the 11 structured families of long corridors of C19 (2..%d rectangles): spline fitted on every path with >= 3 points", tierPick(tier, 24, 40))})
		ps = append(ps, &Pass{Name: "fit-k3-tall", Space: corridorSpaceD(3, grid5, []int{10, 70}, true, true), Eval: evalC20Fit, BudgetS: 5, HeapMB: 256,
			Bound: "every well-formed stack of 1..3 rectangles on the 5-value grid with heights from {10, 70} (tall narrow rectangles next to flat wide ones: a curve that bulges sideways meets a VERTICAL wall first) x 15 x 15 general-position end points"})
		// wide corridors: horizontal sides much longer than the rectangles are high, so that a path piece runs a long way
		// next to a side whose two corners both lie beyond the piece's own horizontal extent (the containment test must
		// still see that side), and end points close to a horizontal side
		wide := []int{0, 60, 120, 180, 240}
		ps = append(ps, &Pass{Name: "fit-k3-wide", Space: corridorSpaceD(3, wide, []int{10}, true, true), Eval: evalC20Fit, BudgetS: 5, HeapMB: 256,
			Bound: "every well-formed stack of 1..3 rectangles with sides on {0,60,120,180,240} and height 10 (aspect ratios up to 24:1) x 15 x 15 general-position end points: spline fitted, 401 samples per piece"})
		if tier == "thorough" {
			ps = append(ps, &Pass{Name: "fit-k4-wide", Space: corridorSpaceD(4, wide, []int{10, 25}, true, false), Eval: evalC20Fit, BudgetS: 5, HeapMB: 256,
				Bound: "stacks of 1..4 rectangles with sides on {0,60,120,180,240} and heights from {10,25} x 6 x 6 general-position end points"})
			ps = append(ps, &Pass{Name: "fit-k5", Space: corridorSpace(5, grid5, []int{10}, true), Eval: evalC20Fit, BudgetS: 5, HeapMB: 256,
				Bound: "corridors with up to 5 rectangles"},
				&Pass{Name: "fit-k3-heights", Space: corridorSpace(3, grid6, []int{4, 10}, true), Eval: evalC20Fit, BudgetS: 5, HeapMB: 256,
					Bound: "stacks of 1..3 rectangles on a 6-value grid with heights from {4,10}"})
		}
		return ps
	}
}

func sumMap(m map[string]int64) (t int64) {
	for _, v := range m {
		t += v
	}
	return
}

package main

import "fmt"

func cyclic(in Input, a *Analysis) bool { return !a.DAG }

func init() {
	// ------------------------------------------------------------ C04
	checks["C04"] = func(tier string) []*Pass {
		or := func(x *Ctx, in Input, a *Analysis, c Cfg, r *Res) bool {
			oracleC04(x, in, a, c, r)
			return a.N >= 3
		}
		g4 := gridSpec{P1: allP1, P2: allP2, P4: saP4, P5: []int{0}, SZ: []int{0, 1, 2, 3, 4}, SP: spAll}.list()
		g5 := gridSpec{P1: allP1, P2: allP2, P4: []int{0, 3}, P5: []int{0}, SZ: []int{2}}.list()
		// every assignment of widths from {2,30} to the nodes (inputs with <= 5 nodes), SinkColoring and NetworkSimplex positioners
		masks := func(nw int, sz int, p4 []int) func(in Input, a *Analysis) []Cfg {
			return func(in Input, a *Analysis) []Cfg {
				var out []Cfg
				if a.N > 5 {
					return nil
				}
				tot := 1
				for i := 0; i < a.N; i++ {
					tot *= nw
				}
				for m := 0; m < tot; m++ {
					for _, p2 := range allP2 {
						for _, p := range p4 {
							out = append(out, Cfg{P1: 0, P2: p2, P4: p, P5: 0, SZ: sz, WMask: m, NS: 4, LS: 8, TH: -1})
						}
					}
				}
				return out
			}
		}
		rot := func(p4 []int) func(in Input, a *Analysis) []Cfg {
			return func(in Input, a *Analysis) []Cfg {
				var out []Cfg
				for rt := 0; rt < len(tabW); rt++ {
					for _, p := range p4 {
						out = append(out, Cfg{P1: 0, P2: 0, P4: p, P5: 0, SZ: 2, Rot: rt, NS: 4, LS: 8, TH: -1})
					}
				}
				return out
			}
		}
		ps := []*Pass{
			{Name: "G4-grid", Space: spaceG(1, 4, 0, nil), Eval: stdEval("C04", staticGrid(g4), or),
				Bound: "all edge lists with <=4 edges x {greedy,dfs} x {ns,lp} x 4 size-aware positioners x 5 size modes x 4 spacings"},
			{Name: "G4-all-width-assignments", Space: spaceG(1, 4, 5, nil), Eval: stdEval("C04", masks(2, 5, []int{0, 3}), or),
				Bound: "all edge lists with <=4 edges on <=5 nodes x EVERY assignment of widths {2,30} to the nodes x {ns,lp} x {sink,ns}"},
			{Name: "G5-per-node", Space: spaceG(5, 5, 0, nil), Eval: stdEval("C04", staticGrid(g5), or),
				Bound: "all edge lists with 5 edges x {greedy,dfs} x {ns,lp} x {sink,ns} x per-node sizes"},
			{Name: "layered-2x3x2", Space: spaceLayered([]int{2, 3, 2}, true), Eval: stdEval("C04", rot([]int{0}), or),
				Bound: "every connected proper 3-layer graph on 2+3+2 nodes (all edge subsets, 2 edge orders) x sink coloring x width table in all 8 rotations"},
			{Name: "layered-3x4", Space: spaceLayered([]int{3, 4}, true), Eval: stdEval("C04", rot([]int{0, 3}), or),
				Bound: "every connected 2-layer graph on 3+4 nodes x {sink,ns} x width table in all 8 rotations"},
			{Name: "families", Space: spaceList(wideFamilies()), Eval: stdEval("C04", rot(saP4), or),
				Bound: "K(a,b) a,b<=5, stars up to 12 leaves, binary trees depth<=4 x 4 size-aware positioners x width table in all 8 rotations"},
			{Name: "macro-3", Space: spaceMacro(3, false), Eval: stdEval("C04", staticGrid([]Cfg{
				{P2: 0, P4: 0, P5: 0, SZ: 2, NS: 4, LS: 8, TH: -1}, {P2: 1, P4: 0, P5: 0, SZ: 2, Rot: 3, NS: 4, LS: 8, TH: -1},
				{P2: 0, P4: 1, P5: 0, SZ: 2, Rot: 5, NS: 0, LS: 8, TH: -1}, {P2: 0, P4: 2, P5: 0, SZ: 2, Rot: 1, NS: 4, LS: 8, TH: -1}}), or),
				Bound: "every graph built by <=3 gadget insertions (shapes with up to 13 edges) x {sink x2, valign, packright} x per-node sizes in 4 rotations"},
			{Name: "seeds", Space: spaceSeeded(seedWitnesses, tierPick(tier, 1, 2)), Eval: stdEval("C04", staticGrid(gridSpec{P1: allP1, P2: allP2, P4: saP4, P5: []int{0}, SZ: []int{2, 4}}.list()), or),
				Bound: "all states within 1 (thorough 2) edit operations of the recorded witnesses x size-aware positioners x per-node sizes"},
		}
		if tier == "thorough" {
			ps = append(ps,
				&Pass{Name: "G4-all-width-assignments-3", Space: spaceG(1, 4, 5, nil), Eval: stdEval("C04", masks(3, 6, []int{0}), or),
					Bound: "all edge lists with <=4 edges on <=5 nodes x every assignment of widths {2,10,30} x {ns,lp} x sink"},
				&Pass{Name: "G5-grid", Space: spaceG(5, 5, 0, nil), Eval: stdEval("C04", staticGrid(gridSpec{P1: allP1, P2: allP2, P4: saP4, P5: []int{0}, SZ: []int{0, 2, 4}, SP: [][2]float64{{4, 8}, {0, 0}}}.list()), or),
					Bound: "all edge lists with 5 edges x 2x2x4 x 3 size modes x 2 spacings"},
				&Pass{Name: "G6-sink", Space: spaceG(6, 6, 7, nil), Eval: stdEval("C04", staticGrid(gridSpec{P1: []int{0}, P2: allP2, P4: []int{0}, P5: []int{0}, SZ: []int{2}}.list()), or),
					Bound: "all edge lists with 6 edges on <=7 nodes x {ns,lp} x sink x per-node sizes"},
				&Pass{Name: "layered-3x3x3", Space: spaceLayered([]int{3, 3, 3}, true), Eval: stdEval("C04", staticGrid([]Cfg{{P4: 0, SZ: 2, NS: 4, LS: 8, TH: -1}, {P4: 0, SZ: 2, Rot: 3, NS: 4, LS: 8, TH: -1}}), or),
					Bound: "every connected proper 3-layer graph on 3+3+3 nodes x sink x 2 width rotations"},
			)
		}
		return ps
	}

	// ------------------------------------------------------------ C05
	checks["C05"] = func(tier string) []*Pass {
		or := func(x *Ctx, in Input, a *Analysis, c Cfg, r *Res) bool {
			return oracleC05(x, in, a, c, r) >= 2
		}
		g := gridSpec{P1: allP1, P2: allP2, P4: []int{0, 1, 2, 3, 4}, P5: []int{1, 2, 3}, SZ: []int{1, 2, 9}}.list()
		gs := gridSpec{P1: allP1, P2: allP2, P4: []int{0, 1, 2, 3, 4}, P5: []int{4}, SZ: []int{1, 2}}.list()
		g5 := gridSpec{P1: allP1, P2: allP2, P4: []int{0, 1, 2, 4}, P5: []int{2, 3}, SZ: []int{2, 9}}.list()
		d := tierPick(tier, 4, 5)
		ps := []*Pass{
			{Name: "G-grid", Space: spaceG(1, d, 0, nil), Eval: stdEval("C05", staticGrid(g), or),
				Bound: fmt.Sprintf("all edge lists with <=%d edges x {greedy,dfs} x {ns,lp} x {sink,valign,packright,ns,bk} x {straight,polyline,ortho} x {fixed, per-node even widths, per-node mixed-parity widths (centres on halves)}", d)},
			{Name: "G-splines", BudgetS: 5, HeapMB: 256, Space: spaceG(1, d-1, 0, nil), Eval: stdEval("C05", staticGrid(gs), or),
				Bound: fmt.Sprintf("all edge lists with <=%d edges x ... x splines", d-1)},
			{Name: "G-splines-deep", BudgetS: 5, HeapMB: 256, Space: spaceG(d, d, 0, nil), Eval: stdEval("C05", staticGrid(gridSpec{P1: allP1, P2: allP2, P4: saP4, P5: []int{4}, SZ: []int{1, 9}}.list()), or),
				Bound: fmt.Sprintf("all edge lists with %d edges x {greedy,dfs} x {ns,lp} x 4 size-aware positioners x splines x {fixed, per-node mixed-parity widths}", d)},
			{Name: "G-deep", Space: spaceG(d+1, d+1, tierPick(tier, 0, 5), nil), Eval: stdEval("C05", staticGrid(g5), or),
				Bound: fmt.Sprintf("all edge lists with %d edges x {greedy,dfs} x {ns,lp} x {sink,valign,packright,bk} x {polyline,ortho} x per-node sizes (even and mixed-parity widths)", d+1)},
			{Name: "G3-spacings", Space: spaceG(1, 3, 0, nil), Eval: stdEval("C05", staticGrid(gridSpec{P1: []int{0}, P2: allP2, P4: []int{0, 1, 2, 3, 4}, P5: []int{1, 2, 3, 4}, SZ: []int{1, 2}, SP: spAll}.list()), or),
				Bound: "all edge lists with <=3 edges x greedy x {ns,lp} x {sink,valign,packright,ns,bk} x every router x {fixed, per-node} sizes x spacings {(4,8),(0,8),(4,0),(0,0)}"},
			{Name: "G6n4", Space: spaceG(6, 6, 4, nil), Eval: stdEval("C05", staticGrid(gridSpec{P1: allP1, P2: []int{0}, P4: []int{1}, P5: []int{2}, SZ: []int{1}}.list()), or),
				Bound: "all edge lists with 6 edges on <=4 nodes (dense cyclic multigraphs: edges reversed by the two-node-cycle pass AND by the cycle breaker) x {greedy,dfs} x ns x valign x polyline"},
			{Name: "G-random-greedy", Space: spaceG(1, 4, 0, cyclic), Eval: stdEval("C05", staticGrid(gridSpec{P1: []int{2}, P2: allP2, P4: []int{0}, P5: []int{2}, SZ: []int{2}}.list()), or),
				Bound: "all cyclic edge lists with <=4 edges x greedy-random with every RNG answer sequence"},
			{Name: "macro-3", Space: spaceMacro(3, false), Eval: stdEval("C05", staticGrid(gridSpec{P1: []int{0}, P2: allP2, P4: []int{0, 4}, P5: []int{2, 3}, SZ: []int{2}}.list()), or),
				Bound: "every graph built by <=3 gadget insertions (shapes with up to 13 edges) x greedy x {ns,lp} x {sink,bk} x {polyline,ortho} x per-node sizes"},
			{Name: "seeds", Space: spaceSeeded(seedWitnesses, tierPick(tier, 1, 2)), Eval: stdEval("C05", staticGrid(g), or),
				Bound: "all states within 1 (thorough 2) edit operations of the recorded witnesses"},
		}
		return ps
	}

	// ------------------------------------------------------------ C06
	checks["C06"] = func(tier string) []*Pass {
		or := func(x *Ctx, in Input, a *Analysis, c Cfg, r *Res) bool {
			return oracleC06(x, in, a, c, r) >= 1
		}
		g := append(gridSpec{P1: allP1, P2: allP2, P4: saP4, P5: []int{1, 2, 3}, SZ: []int{1, 2}}.list(),
			gridSpec{P1: allP1, P2: allP2, P4: saP4, P5: []int{2}, SZ: []int{1, 2}, Virt: []bool{true}}.list()...)
		// mixed-parity widths put node centres on halves: two centres can then be less than one unit apart without being equal
		g = append(g, gridSpec{P1: allP1, P2: allP2, P4: saP4, P5: []int{3}, SZ: []int{9}}.list()...)
		gbk := gridSpec{P1: allP1, P2: allP2, P4: []int{4, 5, 8}, P5: []int{1, 2, 3}, SZ: []int{2}}.list()
		gs := gridSpec{P1: []int{0}, P2: allP2, P4: saP4, P5: []int{4}, SZ: []int{1, 2}}.list()
		g5 := gridSpec{P1: []int{0}, P2: allP2, P4: saP4, P5: []int{2, 3}, SZ: []int{2}}.list()
		d := tierPick(tier, 4, 5)
		ps := []*Pass{
			{Name: "G-grid", Space: spaceG(1, d, 0, nil), Eval: stdEval("C06", staticGrid(g), or),
				Bound: fmt.Sprintf("all edge lists with <=%d edges x {greedy,dfs} x {ns,lp} x 4 size-aware positioners x {straight,polyline,ortho, polyline+virtual-node output} x {fixed,per-node}", d)},
			{Name: "G3-spacings", Space: spaceG(1, 3, 0, nil), Eval: stdEval("C06", staticGrid(gridSpec{P1: []int{0}, P2: allP2, P4: saP4, P5: []int{1, 2, 3, 4}, SZ: []int{1, 2}, SP: spAll}.list()), or),
				Bound: "all edge lists with <=3 edges x greedy x {ns,lp} x 4 size-aware positioners x every router x {fixed, per-node} sizes x spacings {(4,8),(0,8),(4,0),(0,0)}"},
			{Name: "macro-3", Space: spaceMacro(3, false), Eval: stdEval("C06", staticGrid(gridSpec{P1: []int{0}, P2: allP2, P4: []int{0, 1}, P5: []int{2, 3}, SZ: []int{2}}.list()), or),
				Bound: "every graph built by <=3 gadget insertions (shapes with up to 13 edges) x greedy x {ns,lp} x {sink,valign} x {polyline,ortho} x per-node sizes"},
			{Name: "G-bk", Space: spaceG(1, 4, 0, nil), Eval: stdEval("C06", staticGrid(gbk), or),
				Bound: "all edge lists with <=4 edges x b&k {balanced,0,3} x {straight,polyline,ortho} (bend-inside-node clause not applied to b&k)"},
			{Name: "G-splines", BudgetS: 5, HeapMB: 256, Space: spaceG(1, d-1, 0, nil), Eval: stdEval("C06", staticGrid(gs), or),
				Bound: fmt.Sprintf("all edge lists with <=%d edges x greedy x {ns,lp} x 4 size-aware positioners x splines", d-1)},
			{Name: "G-splines-deep", BudgetS: 5, HeapMB: 256, Space: spaceG(d, d, 0, nil), Eval: stdEval("C06", staticGrid(gridSpec{P1: []int{0}, P2: allP2, P4: saP4, P5: []int{4}, SZ: []int{1, 9}}.list()), or),
				Bound: fmt.Sprintf("all edge lists with %d edges x greedy x {ns,lp} x 4 size-aware positioners x splines x {fixed, per-node mixed-parity widths}", d)},
			{Name: "G-deep", Space: spaceG(d+1, d+1, tierPick(tier, 0, 6), nil), Eval: stdEval("C06", staticGrid(g5), or),
				Bound: fmt.Sprintf("all edge lists with %d edges x greedy x {ns,lp} x 4 size-aware positioners x {polyline,ortho} x per-node sizes", d+1)},
			{Name: "component-next-to-long-edges", Space: func(emit func(Input)) {
				spaceG(3, 5, 4, func(in Input, a *Analysis) bool { return a.NComp == 1 })(func(in Input) {
					n := in.N()
					emit(Input{E: append(append([]int(nil), in.E...), n, n+1)})
				})
			}, Eval: stdEval("C06", func(in Input, a *Analysis) []Cfg {
				var out []Cfg
				for _, p2 := range allP2 {
					for _, p4 := range []int{0, 1} {
						out = append(out, Cfg{P2: p2, P4: p4, P5: 2, SZ: 8, WMask: a.N - 2, NS: 4, LS: 8, TH: -1})
					}
				}
				return out
			}, or), Bound: "every connected edge list with 3..5 edges on <=4 nodes (parallel long edges included) followed by a second component of two big, tall nodes x {ns,lp} x {sink,valign} x polyline: bends of the first component against the nodes of the second"},
			{Name: "G4-height-rotations", Space: spaceG(2, 4, 0, nil), Eval: stdEval("C06", func(in Input, a *Analysis) []Cfg {
				var out []Cfg
				for rt := 1; rt < len(tabW); rt++ {
					for _, p5 := range []int{2, 3} {
						out = append(out, Cfg{P2: rt % 2, P4: rt % 4, P5: p5, SZ: 2, Rot: rt, NS: 4, LS: 8, TH: -1, Virt: p5 == 2 && rt%2 == 0})
					}
				}
				return out
			}, or), Bound: "all edge lists with 2..4 edges x the size table in all 7 other rotations (which node is tall/short, wide/narrow) x {polyline,ortho}, positioner and layerer varied with the rotation"},
			{Name: "macro-3", Space: spaceMacro(3, false), Eval: stdEval("C06", staticGrid(gridSpec{P1: []int{0}, P2: allP2, P4: []int{0, 1}, P5: []int{2, 3}, SZ: []int{2}}.list()), or),
				Bound: "every graph built by <=3 gadget insertions (shapes with up to 13 edges) x greedy x {ns,lp} x {sink,valign} x {polyline,ortho} x per-node sizes"},
			{Name: "seeds", Space: spaceSeeded(seedWitnesses, tierPick(tier, 1, 2)), Eval: stdEval("C06", staticGrid(g), or),
				Bound: "all states within 1 (thorough 2) edit operations of the recorded witnesses"},
		}
		return ps
	}

	// ------------------------------------------------------------ C10
	checks["C10"] = func(tier string) []*Pass {
		or := func(x *Ctx, in Input, a *Analysis, c Cfg, r *Res) bool {
			p, capped := oracleC10(x, in, a, c, r)
			x.Hist("pivots", p)
			if capped {
				x.Hist("capped-runs-exempt-from-optimality", 1)
			}
			return p > 0 || in.M()-a.SelfLoops >= 3
		}
		g := gridSpec{P1: allP1, P2: []int{0}, P4: []int{1}, P5: []int{0}, SZ: []int{1}, TH: []int{28, 1, 0}}.list()
		gd := gridSpec{P1: []int{0}, P2: []int{0}, P4: []int{1}, P5: []int{0}, SZ: []int{1}, TH: []int{28}}.list()
		ps := []*Pass{
			{Name: "G5", Space: spaceG(1, 5, 0, nil), Eval: stdEval("C10", staticGrid(g), or),
				Bound: "all edge lists with <=5 edges (connected and disconnected) x {greedy,dfs} x thoroughness {28,1,0}"},
			{Name: "D(6,<=8)", Space: spaceD(6, 5, tierPick(tier, 8, 8), true), Eval: stdEval("C10", staticGrid(gd), or),
				Bound: "every multiset of 5..8 edges over the 15 pairs u<v of 6 nodes, in lexicographic and reverse order (the space where the simplex pivots)"},
			{Name: "D(6,9)-lex", Space: spaceD(6, 9, 9, false), Eval: stdEval("C10", staticGrid(gd), or),
				Bound: "every multiset of 9 edges over the 15 pairs of 6 nodes, lexicographic order (where the stale-cut-value defect first showed)"},
			{Name: "G6n4", Space: spaceG(6, 6, 4, nil), Eval: stdEval("C10", staticGrid(gridSpec{P1: allP1, P2: []int{0}, P4: []int{1}, P5: []int{0}, SZ: []int{1}, TH: []int{28}}.list()), or),
				Bound: "all edge lists with 6 edges on <=4 nodes (dense, cyclic multigraphs) x {greedy,dfs}"},
			{Name: "macro-3", Space: spaceMacro(3, false), Eval: stdEval("C10", staticGrid(gridSpec{P1: allP1, P2: []int{0}, P4: []int{1}, P5: []int{0}, SZ: []int{1}, TH: []int{28}}.list()), or),
				Bound: "every graph built by <=3 gadget insertions (path, fan-in/out, 3-/4-cycle, diamond, long-edge triangle; shapes with up to 13 edges)"},
			{Name: "seeds", Space: spaceSeeded(seedWitnesses, tierPick(tier, 1, 2)), Eval: stdEval("C10", staticGrid(g), or),
				Bound: "all states within 1 (thorough 2) edit operations of the recorded witnesses"},
			{Name: "pivot-rich-neighbourhood", Space: spaceConcat(spaceSeeded(pivotRichSeeds, tierPick(tier, 1, 2)), spaceAllRotations(spaceSeeded(pivotRichSeeds, 1))), Eval: stdEval("C10", staticGrid(gd), or),
				Bound: fmt.Sprintf("19 recorded DAGs on which the simplex makes 4..5 pivots (8..10 nodes, 11..15 edges): every state within %d edit operations {delete, duplicate, reverse, swap, add an edge} of them, and every rotation of the edge list of every state within 1 edit", tierPick(tier, 1, 2))},
			{Name: "families", Space: spaceList(c10Families()), Eval: stdEval("C10", staticGrid(gd), or),
				Bound: "K(a,b) a,b<=5, ladders, binary trees, chains with cross links (optimality by dual certificate only)"},
			{Name: "parallel-chains", Space: spaceList(thetaFamilies(tierPick(tier, 5, 4), tier == "thorough")), Eval: stdEval("C10", staticGrid(gd), or),
				Bound: "two paths with 1..5 edges each (thorough: three with 1..4) between a top and a bottom node + at most one extra node attached by two edges at every pair of nodes, 10 edge-list orders each (layerings with slack: what normalisation and balancing act on)"},
		}
		if tier == "thorough" {
			ps = append(ps,
				&Pass{Name: "G6", Space: spaceG(6, 6, 0, nil), Eval: stdEval("C10", staticGrid(gridSpec{P1: allP1, P2: []int{0}, P4: []int{1}, P5: []int{0}, SZ: []int{1}, TH: []int{28}}.list()), or),
					Bound: "all edge lists with 6 edges x {greedy,dfs}"},
				&Pass{Name: "G7n5", Space: spaceG(7, 7, 5, nil), Eval: stdEval("C10", staticGrid(gd), or),
					Bound: "all edge lists with 7 edges on <=5 nodes x greedy"},
				&Pass{Name: "D(6,9)", Space: spaceD(6, 9, 9, true), Eval: stdEval("C10", staticGrid(gd), or),
					Bound: "every multiset of 9 edges over the 15 pairs of 6 nodes, 2 orders"},
				&Pass{Name: "D(7,8)", Space: spaceD(7, 7, 8, false), Eval: stdEval("C10", staticGrid(gd), or),
					Bound: "every multiset of 7..8 edges over the 21 pairs of 7 nodes"},
				&Pass{Name: "D(6,10)", Space: spaceD(6, 10, 10, false), Eval: stdEval("C10", staticGrid(gd), or),
					Bound: "every multiset of 10 edges over the 15 pairs of 6 nodes"},
				&Pass{Name: "D(7,9)", Space: spaceD(7, 9, 9, false), Eval: stdEval("C10", staticGrid(gd), or),
					Bound: "every multiset of 9 edges over the 21 pairs of 7 nodes (10 M inputs)"},
			)
		}
		return ps
	}

	// ------------------------------------------------------------ C11
	checks["C11"] = func(tier string) []*Pass {
		or := func(x *Ctx, in Input, a *Analysis, c Cfg, r *Res) bool {
			oracleC11(x, in, a, c, r)
			return in.M()-a.SelfLoops >= 2
		}
		g := gridSpec{P1: allP1, P2: []int{1}, P4: []int{1}, P5: []int{0}, SZ: []int{1, 2}}.list()
		d := tierPick(tier, 5, 6)
		ps := []*Pass{
			{Name: "G", Space: spaceG(1, d, 0, nil), Eval: stdEval("C11", staticGrid(g), or),
				Bound: fmt.Sprintf("all edge lists with <=%d edges x {greedy,dfs} x longest path x {fixed,per-node}", d)},
			{Name: "G6n4", Space: spaceG(6, tierPick(tier, 6, 7), 4, nil), Eval: stdEval("C11", staticGrid(gridSpec{P1: allP1, P2: []int{1}, P4: []int{1}, P5: []int{0}, SZ: []int{1}}.list()), or),
				Bound: "all edge lists with 6 (thorough 6..7) edges on <=4 nodes (dense, cyclic multigraphs) x {greedy,dfs}"},
			{Name: "G-random-greedy", Space: spaceG(1, 4, 0, cyclic), Eval: stdEval("C11", staticGrid(gridSpec{P1: []int{2}, P2: []int{1}, P4: []int{1}, P5: []int{0}, SZ: []int{1}}.list()), or),
				Bound: "all cyclic edge lists with <=4 edges x greedy-random with every RNG answer sequence"},
			{Name: "D(6,7)", Space: spaceD(6, 6, 7, false), Eval: stdEval("C11", staticGrid(gridSpec{P1: []int{0}, P2: []int{1}, P4: []int{1}, P5: []int{0}, SZ: []int{1}}.list()), or),
				Bound: "every multiset of 6..7 edges over the 15 pairs of 6 nodes"},
			{Name: "DS6-rotations", Space: spaceRotations(spaceDS(6, 5, tierPick(tier, 10, 15))), Eval: stdEval("C11", staticGrid(gridSpec{P1: []int{0}, P2: []int{1}, P4: []int{1}, P5: []int{0}, SZ: []int{1}}.list()), or),
				Bound: fmt.Sprintf("every connected simple DAG on 6 nodes with 5..%d edges x every rotation of its source-major and target-major edge orders and of their reverses (4m edge orders per DAG: non-monotone adjacency lists, node list not starting at a source)", tierPick(tier, 10, 15))},
			{Name: "macro-3", Space: spaceMacro(3, false), Eval: stdEval("C11", staticGrid(g), or),
				Bound: "every graph built by <=3 gadget insertions (path, fan-in/out, 3-/4-cycle, diamond, long-edge triangle; shapes with up to 13 edges)"},
			{Name: "seeds", Space: spaceSeeded(seedWitnesses, tierPick(tier, 1, 2)), Eval: stdEval("C11", staticGrid(g), or),
				Bound: "all states within 1 (thorough 2) edit operations of the recorded witnesses"},
			{Name: "families", Space: spaceList(c10Families()), Eval: stdEval("C11", staticGrid(g), or),
				Bound: "K(a,b), ladders, trees, chains with cross links"},
		}
		if tier == "thorough" {
			ps = append(ps, &Pass{Name: "G7n5", Space: spaceG(7, 7, 5, nil), Eval: stdEval("C11", staticGrid(gridSpec{P1: []int{0}, P2: []int{1}, P4: []int{1}, P5: []int{0}, SZ: []int{1}}.list()), or),
				Bound: "all edge lists with 7 edges on <=5 nodes x greedy"})
		}
		return ps
	}

	// ------------------------------------------------------------ C12
	checks["C12"] = func(tier string) []*Pass {
		or := func(x *Ctx, in Input, a *Analysis, c Cfg, r *Res) bool {
			d := oracleC12(x, in, a, c, r)
			x.Hist("drawn-crossings", d)
			return d > 0 || a.M >= 4
		}
		mon := func(cs []Cfg) []Cfg {
			for i := range cs {
				cs[i].Mon = true
			}
			return cs
		}
		simple := func(in Input, a *Analysis) bool { return a.Simple }
		g := mon(gridSpec{P1: allP1, P2: allP2, P4: saP4, P5: []int{2}, SZ: []int{1}}.list())
		g1 := mon(gridSpec{P1: []int{0}, P2: allP2, P4: []int{0, 1}, P5: []int{2}, SZ: []int{1}}.list())
		d := tierPick(tier, 5, 6)
		ps := []*Pass{
			{Name: "G-simple", Space: spaceG(1, d, 0, simple), Eval: stdEval("C12", staticGrid(g), or),
				Bound: fmt.Sprintf("all simple edge lists with <=%d edges x {greedy,dfs} x {ns,lp} x 4 size-aware positioners x polyline", d)},
			{Name: "G6n5-simple-widths", Space: spaceG(5, 6, 5, simple), Eval: stdEval("C12", staticGrid(mon([]Cfg{
				{P2: 0, P4: 0, P5: 2, SZ: 2, NS: 4, LS: 8, TH: -1}, {P2: 1, P4: 0, P5: 2, SZ: 2, Rot: 3, NS: 4, LS: 8, TH: -1},
				{P2: 0, P4: 0, P5: 2, SZ: 2, Rot: 5, NS: 4, LS: 8, TH: -1}, {P2: 0, P4: 3, P5: 2, SZ: 2, Rot: 1, NS: 4, LS: 8, TH: -1},
				{P2: 1, P4: 1, P5: 2, SZ: 2, Rot: 6, NS: 4, LS: 8, TH: -1}, {P2: 0, P4: 2, P5: 2, SZ: 2, Rot: 2, NS: 4, LS: 8, TH: -1}})), or),
				Bound: "all simple edge lists with 5..6 edges on <=5 nodes x heterogeneous widths (size table in 6 rotations) x {sink x3, ns, valign, packright}: the order chosen by crossing minimisation must survive positioning with wide next to narrow nodes"},
			{Name: "macro-3-simple", Space: func(emit func(Input)) {
				spaceMacro(3, false)(func(in Input) {
					if analyze(in).Simple {
						emit(in)
					}
				})
			}, Eval: stdEval("C12", staticGrid(g1), or),
				Bound: "every SIMPLE graph built by <=3 gadget insertions (shapes with up to 13 edges) x {ns,lp} x {sink,valign}"},
			{Name: "layered-3x4", Space: spaceLayered([]int{3, 4}, false), Eval: stdEval("C12", staticGrid(g1), or),
				Bound: "every 2-layer graph on up to 3+4 nodes (all 4095 edge subsets, 2 edge orders) x {ns,lp} x {sink,valign}"},
			{Name: "layered-2x3x2", Space: spaceLayered([]int{2, 3, 2}, false), Eval: stdEval("C12", staticGrid(g1), or),
				Bound: "every proper 3-layer graph on up to 2+3+2 nodes x {ns,lp} x {sink,valign}"},
			{Name: "deep-chains", Space: spaceList(c12Families(tier)), Eval: stdEval("C12", staticGrid(mon(gridSpec{P1: []int{0}, P2: allP2, P4: []int{0, 1}, P5: []int{2}, SZ: []int{1}}.list())), or),
				Bound: "2-3 chains of 60..70 layers under one root with every cross-link pattern at depths 61..66 (crossings beyond layer 64); K(a,b) a,b<=6"},
		}
		if tier == "thorough" {
			ps = append(ps,
				&Pass{Name: "layered-4x4", Space: spaceLayered([]int{4, 4}, false), Eval: stdEval("C12", staticGrid(g1), or),
					Bound: "every 2-layer graph on up to 4+4 nodes (all 65535 edge subsets, 2 orders)"},
				&Pass{Name: "layered-3x3x3", Space: spaceLayered([]int{3, 3, 3}, true), Eval: stdEval("C12", staticGrid(mon([]Cfg{{P4: 0, P5: 2, SZ: 1, NS: 4, LS: 8, TH: -1}})), or),
					Bound: "every connected proper 3-layer graph on 3+3+3 nodes x ns x sink"},
			)
		}
		return ps
	}

	// ------------------------------------------------------------ C13
	checks["C13"] = func(tier string) []*Pass {
		or := func(x *Ctx, in Input, a *Analysis, c Cfg, r *Res) bool {
			oracleC13(x, in, a, c, r)
			return a.N >= 4
		}
		trees := func(in Input, a *Analysis) bool { return a.OutTree || a.InTree }
		g := gridSpec{P1: allP1, P2: allP2, P4: saP4, P5: []int{2}, SZ: []int{1}}.list()
		d := tierPick(tier, 6, 6)
		ps := []*Pass{
			{Name: "trees", Space: spaceGN(1, d, func(d int) int { return d + 1 }, 0, trees), Eval: stdEval("C13", staticGrid(g), or),
				Bound: fmt.Sprintf("every out-tree and in-tree with <=%d edges, every labelling and every edge order (canonical ordered edge lists) x {greedy,dfs} x {ns,lp} x 4 size-aware positioners", d)},
			{Name: "big-trees", Space: spaceList(treeFamilies()), Eval: stdEval("C13", staticGrid(gridSpec{P1: []int{0}, P2: allP2, P4: []int{0, 1}, P5: []int{2}, SZ: []int{1}}.list()), or),
				Bound: "complete binary/ternary trees, caterpillars and spiders up to 40 nodes, both directions, 3 edge orders"},
		}
		one := gridSpec{P1: []int{0}, P2: []int{0}, P4: []int{0}, P5: []int{2}, SZ: []int{1}}.list()
		ps = append(ps, &Pass{Name: "tree-orders-7..9", Space: spaceTreeOrders(7, 9), Eval: stdEval("C13", staticGrid(one), or),
			Bound: "every ordered rooted tree with 7..9 nodes (Catalan(n-1) each), as out-tree and in-tree, edge list in depth-first and breadth-first order and every list within ONE edge move of those x default algorithms"})
		if tier == "thorough" {
			ps = append(ps, &Pass{Name: "tree-orders-10..11", Space: spaceTreeOrders(10, 11), Eval: stdEval("C13", staticGrid(one), or),
				Bound: "every ordered rooted tree with 10..11 nodes, as out-tree and in-tree, depth-first and breadth-first edge order and every list within one edge move of those x default algorithms"})
			ps = append(ps, &Pass{Name: "trees-7", Space: spaceGN(7, 7, func(d int) int { return d + 1 }, 0, trees), Eval: stdEval("C13", staticGrid(gridSpec{P1: []int{0}, P2: allP2, P4: []int{0}, P5: []int{2}, SZ: []int{1}}.list()), or),
				Bound: "every out-tree and in-tree with 7 edges, every edge order x greedy x {ns,lp} x sink"})
		}
		return ps
	}

	// ------------------------------------------------------------ C14
	checks["C14"] = func(tier string) []*Pass {
		or := func(x *Ctx, in Input, a *Analysis, c Cfg, r *Res) bool {
			rev := oracleC14(x, in, a, c, r)
			x.Hist("reversed-edges", rev)
			return rev > 0 || (a.DAG && a.M >= 3)
		}
		g := gridSpec{P1: []int{1, 0}, P2: []int{0}, P4: []int{1}, P5: []int{1}, SZ: []int{1}}.list()
		d := tierPick(tier, 5, 6)
		ps := []*Pass{
			{Name: "G", Space: spaceG(1, d, 0, nil), Eval: stdEval("C14", staticGrid(g), or),
				Bound: fmt.Sprintf("all edge lists with <=%d edges x {dfs (minimality + no reversal in DAGs), greedy (no reversal in DAGs)}", d)},
			{Name: "G-random-greedy", Space: spaceG(1, tierPick(tier, 4, 5), 0, nil), Eval: stdEval("C14", staticGrid(gridSpec{P1: []int{2}, P2: []int{0}, P4: []int{1}, P5: []int{1}, SZ: []int{1}}.list()), or),
				Bound: "all edge lists with <=4 (thorough 5) edges x greedy-random with every RNG answer sequence"},
			{Name: "G-deep-n4", Space: spaceG(d+1, d+1, 4, nil), Eval: stdEval("C14", staticGrid(g), or),
				Bound: fmt.Sprintf("all edge lists with %d edges on <=4 nodes x {dfs,greedy}", d+1)},
			{Name: "macro-3", Space: spaceMacro(3, false), Eval: stdEval("C14", staticGrid(g), or),
				Bound: "every graph built by <=3 gadget insertions (path, fan-in/out, 3-/4-cycle, diamond, long-edge triangle; shapes with up to 13 edges)"},
			{Name: "seeds", Space: spaceSeeded(seedWitnesses, tierPick(tier, 1, 2)), Eval: stdEval("C14", staticGrid(gridSpec{P1: []int{1, 0}, P2: allP2, P4: []int{1}, P5: []int{1}, SZ: []int{1}}.list()), or),
				Bound: "all states within 1 (thorough 2) edit operations of the recorded witnesses"},
		}
		return ps
	}

	// ------------------------------------------------------------ C16
	checks["C16"] = func(tier string) []*Pass {
		or := func(x *Ctx, in Input, a *Analysis, c Cfg, r *Res) bool {
			oracleC16(x, in, a, c, r)
			return a.N >= 3
		}
		conn := func(in Input, a *Analysis) bool { return a.NComp == 1 }
		g := gridSpec{P1: allP1, P2: allP2, P3: []int{0, 1}, P4: []int{1, 2}, P5: []int{1}, SZ: []int{0, 1, 2}, SP: spLSpos, Virt: []bool{true}}.list()
		d := 5
		ps := []*Pass{
			{Name: "G-conn", Space: spaceG(1, d, 0, conn), Eval: stdEval("C16", staticGrid(g), or),
				Bound: fmt.Sprintf("all connected edge lists with <=%d edges x {greedy,dfs} x {ns,lp} x {valign,packright} x {weighted-median ordering, no ordering} x {zero,fixed,per-node} sizes x NodeSpacing {4,0}, helper nodes made visible", d)},
			{Name: "rotations", Space: spaceG(3, 4, 0, conn), Eval: stdEval("C16", func(in Input, a *Analysis) []Cfg {
				var out []Cfg
				for rt := 1; rt < len(tabW); rt++ {
					for _, p4 := range []int{1, 2} {
						out = append(out, Cfg{P2: rt % 2, P4: p4, P5: 2, SZ: 2, Rot: rt, NS: 4, LS: 8, TH: -1, Virt: true})
					}
				}
				return out
			}, or), Bound: "all connected edge lists with 3..4 edges x width table in all rotations"},
			{Name: "families", Space: spaceList(wideFamilies()), Eval: stdEval("C16", staticGrid(g), or),
				Bound: "K(a,b) a,b<=5, stars, binary trees"},
			{Name: "macro-3", Space: func(emit func(Input)) {
				spaceMacro(3, false)(func(in Input) {
					if analyze(in).NComp == 1 {
						emit(in)
					}
				})
			}, Eval: stdEval("C16", staticGrid(gridSpec{P1: []int{0}, P2: allP2, P3: []int{0, 1}, P4: []int{1, 2}, P5: []int{1}, SZ: []int{2}, Virt: []bool{true}}.list()), or),
				Bound: "every graph built by <=3 gadget insertions (shapes with up to 13 edges) x greedy x {ns,lp} x both orderers x {valign,packright} x per-node sizes"},
		}
		if tier == "thorough" {
			ps = append(ps, &Pass{Name: "G6-conn", Space: spaceG(6, 6, 0, conn), Eval: stdEval("C16", staticGrid(gridSpec{P1: []int{0}, P2: allP2, P3: []int{0, 1}, P4: []int{1, 2}, P5: []int{1}, SZ: []int{2}, SP: spLSpos, Virt: []bool{true}}.list()), or),
				Bound: "all connected edge lists with 6 edges x greedy x {ns,lp} x both orderers x {valign,packright} x per-node sizes x NodeSpacing {4,0}"})
		}
		return ps
	}
}

func wideFamilies() []Input {
	var ins []Input
	for a := 1; a <= 5; a++ {
		for b := 1; b <= 5; b++ {
			ins = append(ins, famBipartite(a, b))
		}
	}
	for k := 3; k <= 12; k += 3 {
		ins = append(ins, famStar(k, true), famStar(k, false))
	}
	for d := 2; d <= 4; d++ {
		ins = append(ins, famBinTree(d, true), famBinTree(d, false))
	}
	ins = append(ins, famLadder(6, 5), famChains(3, 5, 2, 7))
	return ins
}

func c10Families() []Input {
	var ins []Input
	for a := 1; a <= 5; a++ {
		for b := 1; b <= 5; b++ {
			ins = append(ins, famBipartite(a, b))
		}
	}
	for p := 0; p < 8; p++ {
		ins = append(ins, famLadder(8, p), famChains(3, 6, 2, p), famChains(2, 9, 5, p))
	}
	for d := 2; d <= 4; d++ {
		ins = append(ins, famBinTree(d, true), famBinTree(d, false))
	}
	// diamonds of growing length: long edges next to chains (forces non-trivial cut values)
	for L := 2; L <= 7; L++ {
		var e []int
		for i := 0; i < L; i++ {
			e = append(e, i, i+1)
		}
		e = append(e, 0, L, 0, L, 1, L)
		ins = append(ins, relabel(e))
	}
	return ins
}

func c12Families(tier string) []Input {
	var ins []Input
	for _, L := range []int{62, 68} {
		for k := 2; k <= 3; k++ {
			for pat := 1; pat < 8; pat++ {
				if k == 2 && pat >= 4 {
					continue
				}
				for d := L - 8; d < L-1; d++ {
					if d < 58 {
						continue
					}
					ins = append(ins, famChains(k, L, d, pat))
				}
			}
		}
	}
	for a := 2; a <= 6; a++ {
		for b := 2; b <= 6; b++ {
			ins = append(ins, famBipartite(a, b))
		}
	}
	return ins
}

func treeFamilies() []Input {
	var ins []Input
	add := func(e []int) {
		ins = append(ins, relabel(e))
		rev := make([]int, 0, len(e))
		for i := len(e) - 2; i >= 0; i -= 2 {
			rev = append(rev, e[i], e[i+1])
		}
		ins = append(ins, relabel(rev))
		// interleaved order: odd edges first
		var il []int
		for i := 2; i < len(e); i += 4 {
			il = append(il, e[i], e[i+1])
		}
		for i := 0; i < len(e); i += 4 {
			il = append(il, e[i], e[i+1])
		}
		ins = append(ins, relabel(il))
	}
	for _, out := range []bool{true, false} {
		dir := func(p, c int) (int, int) {
			if out {
				return p, c
			}
			return c, p
		}
		for _, arity := range []int{2, 3} {
			for depth := 2; depth <= 4; depth++ {
				var e []int
				n := 1
				level := []int{0}
				for d := 0; d < depth && n < 40; d++ {
					var next []int
					for _, p := range level {
						for k := 0; k < arity && n < 40; k++ {
							u, w := dir(p, n)
							e = append(e, u, w)
							next = append(next, n)
							n++
						}
					}
					level = next
				}
				add(e)
			}
		}
		// caterpillar: spine of 8 with 2 legs each
		{
			var e []int
			n := 8
			for i := 0; i+1 < 8; i++ {
				u, w := dir(i, i+1)
				e = append(e, u, w)
			}
			for i := 0; i < 8; i++ {
				for k := 0; k < 2; k++ {
					u, w := dir(i, n)
					e = append(e, u, w)
					n++
				}
			}
			add(e)
		}
		// spider: 5 legs of length 1..5
		{
			var e []int
			n := 1
			for leg := 1; leg <= 5; leg++ {
				p := 0
				for j := 0; j < leg; j++ {
					u, w := dir(p, n)
					e = append(e, u, w)
					p = n
					n++
				}
			}
			add(e)
		}
	}
	return ins
}

// Command worker is the explorer of the autog model-checking harness. It is compiled INTO the module under
// test (github.com/nulab/autog/verifx/worker, via go build -overlay) so that it can drive internal packages.
// One worker process runs one Layout at a time (the monitor is process-global; stack overflow and
// out-of-memory kill the process); the supervisor (vmc/super) shards the space over worker processes.
package main

import (
	"bufio"
	"encoding/json"
	"flag"
	"fmt"
	"os"
	"regexp"
	"strings"
	"time"
)

type KnownFinding struct {
	ID       string           `json:"id"`
	Property string           `json:"property"`
	Status   string           `json:"status"` // known | fixed
	Class    string           `json:"class"`  // regexp on the violation class
	Cfg      map[string][]int `json:"cfg,omitempty"`
	Pred     string           `json:"pred,omitempty"` // named input predicate
	Text     string           `json:"text"`
	Witness  json.RawMessage  `json:"witness,omitempty"`
	Commit   string           `json:"commit,omitempty"`
	re       *regexp.Regexp
}

var known []*KnownFinding

func loadKnown(path string) {
	if path == "" {
		return
	}
	b, err := os.ReadFile(path)
	if err != nil {
		fatalf("known findings: %v", err)
	}
	var f struct {
		Findings []*KnownFinding `json:"findings"`
	}
	if err := json.Unmarshal(b, &f); err != nil {
		fatalf("known findings: %v", err)
	}
	for _, k := range f.Findings {
		k.re = regexp.MustCompile(k.Class)
		known = append(known, k)
	}
}

func cfgField(c *Cfg, f string) (int, bool) {
	if c == nil {
		return 0, false
	}
	switch f {
	case "p1":
		return c.P1, true
	case "p2":
		return c.P2, true
	case "p4":
		return c.P4, true
	case "p5":
		return c.P5, true
	case "sz":
		return c.SZ, true
	}
	return 0, false
}

// matchKnown returns the id of the `known` entry that covers this violation, or "".
// `fixed` entries never match: they suppress nothing.
func matchKnown(prop, class string, c *Cfg, in Input) string {
	for _, k := range known {
		if k.Status != "known" || k.Property != prop || !k.re.MatchString(class) {
			continue
		}
		ok := true
		for f, allowed := range k.Cfg {
			v, has := cfgField(c, f)
			if !has {
				ok = false
				break
			}
			found := false
			for _, a := range allowed {
				if a == v {
					found = true
				}
			}
			if !found {
				ok = false
				break
			}
		}
		if ok && k.Pred != "" {
			p := inputPreds[k.Pred]
			if p == nil || !p(in, c) {
				ok = false
			}
		}
		if ok {
			return k.ID
		}
	}
	return ""
}

var inputPreds = map[string]func(in Input, c *Cfg) bool{}

func main() {
	var (
		prop     = flag.String("prop", "", "property id")
		tier     = flag.String("tier", "quick", "quick|thorough")
		shard    = flag.String("shard", "0/1", "w/W")
		slot     = flag.String("slot", "", "mmap slot file")
		after    = flag.String("after", "", "resume after pass:input:cfg")
		locate   = flag.String("locate", "", "print the unit pass:input:cfg and exit")
		replay   = flag.String("replay", "", "replay a violation file")
		knownF   = flag.String("known", "", "known findings file")
		valOut   = flag.String("valout", "", "write validation-slice hashes")
		valIn    = flag.String("valin", "", "validation mode: compare with these hashes")
		budget   = flag.Float64("budget", 20, "per-unit wall budget (s)")
		heapMB   = flag.Int("heapmb", 1536, "heap budget (MB)")
		deadline = flag.Float64("deadline", 0, "stop after this many seconds (exit 0, exhaustive:false)")
		seed     = flag.Int64("seed", 1, "seed")
		list     = flag.Bool("list", false, "list passes")
		obsFile  = flag.String("obs", "", "run the (input, cfg) of a violation file once and print the hash of the observation")
		verbose  = flag.Bool("v", false, "verbose")
		anyViol  = flag.Bool("anyviol", false, "replay: exit 1 if the oracle reports any violation that is not a known finding")
		bscale   = flag.Float64("bscale", 1, "scale factor for per-pass budgets (confirmation re-runs)")
	)
	flag.Parse()
	budgetScale = *bscale
	limits()
	loadKnown(*knownF)
	x := &Ctx{prop: *prop, tier: *tier, seed: *seed, nshard: 1, afterPass: -1, afterInput: -1, afterCfg: -1,
		obs: map[uint64]struct{}{}, out: bufio.NewWriterSize(os.Stdout, 1<<16), maxViol: 5}
	x.st.PassStates = map[string]int64{}
	x.st.PassEvals = map[string]int64{}
	fmt.Sscanf(*shard, "%d/%d", &x.shard, &x.nshard)
	mk := checks[*prop]
	if mk == nil {
		fatalf("unknown property %q", *prop)
	}
	passes := mk(*tier)
	if *list {
		for i, p := range passes {
			fmt.Println(i, p.Name, "—", p.Bound)
		}
		return
	}
	if *obsFile != "" {
		b, err := os.ReadFile(*obsFile)
		if err != nil {
			fatalf("%v", err)
		}
		var v Violation
		if err := json.Unmarshal(b, &v); err != nil || v.Cfg == nil {
			fatalf("obs: need a violation file with input and cfg")
		}
		r := exec(v.Input, *v.Cfg, nil)
		fmt.Printf("OBS %016x\n", hash64(r.Ser()))
		if *verbose {
			fmt.Print(describeLayout(r.L))
		}
		return
	}
	if *replay != "" {
		startWatchdog(x, time.Duration(*budget*float64(time.Second)), uint64(*heapMB)<<20)
		rc := doReplay(x, passes, *replay)
		if *anyViol {
			rc = 0
			for _, r := range x.replayed {
				if r.Known == "" {
					rc = 1
				}
			}
		}
		os.Exit(rc)
	}
	if *locate != "" {
		doLocate(x, passes, *locate)
		return
	}
	if *after != "" {
		fmt.Sscanf(*after, "%d:%d:%d", &x.afterPass, &x.afterInput, &x.afterCfg)
	} else {
		x.afterPass = 0
	}
	if *slot != "" {
		x.slot = openSlot(*slot)
	}
	if *valOut != "" {
		f, err := os.Create(*valOut)
		if err != nil {
			fatalf("%v", err)
		}
		x.valOut = bufio.NewWriter(f)
		defer func() { x.valOut.Flush(); f.Close() }()
	}
	if *valIn != "" {
		x.valMode = true
		x.valIn = map[string]uint64{}
		x.valInputs = map[[2]int64]bool{}
		f, err := os.Open(*valIn)
		if err != nil {
			fatalf("%v", err)
		}
		sc := bufio.NewScanner(f)
		for sc.Scan() {
			var k string
			var h uint64
			fmt.Sscanf(sc.Text(), "%s %d", &k, &h)
			x.valIn[k] = h
			var pi, ii, ci int64
			fmt.Sscanf(k, "%d:%d:%d", &pi, &ii, &ci)
			if ii%int64(x.nshard) == int64(x.shard) {
				x.valInputs[[2]int64{pi, ii}] = true
			} else {
				delete(x.valIn, k) // another validation worker's unit
			}
		}
		f.Close()
	}
	if *deadline > 0 {
		x.deadline = time.Now().Add(time.Duration(*deadline * float64(time.Second)))
	}
	startWatchdog(x, time.Duration(*budget*float64(time.Second)), uint64(*heapMB)<<20)
	x.runPasses(passes)
	if x.valOut != nil {
		x.valOut.Flush()
	}
}

// doLocate prints the input and configuration of one execution unit (used by the supervisor to attribute a
// fatal crash, which leaves only the slot behind).
func doLocate(x *Ctx, passes []*Pass, where string) {
	var p, c int
	var i int64
	fmt.Sscanf(where, "%d:%d:%d", &p, &i, &c)
	if p >= len(passes) {
		fatalf("locate: no such pass")
	}
	x.passIdx, x.pass = p, passes[p]
	x.locating = true
	x.locCfg = c
	idx := int64(-1)
	found := false
	passes[p].Space(func(in Input) {
		idx++
		if idx != i || found {
			return
		}
		found = true
		x.inputIdx = idx
		x.curInput = in
		x.cfgIdx = -1
		x.skipCfg = -1
		passes[p].Eval(x, in)
		if !x.located {
			x.emitLine(map[string]any{"t": "L", "pass": passes[p].Name, "input": in, "cfg": nil})
		}
	})
}

// doReplay re-executes every unit of the violation's input in this fresh process and prints what the oracle says.
func doReplay(x *Ctx, passes []*Pass, file string) int {
	b, err := os.ReadFile(file)
	if err != nil {
		fatalf("%v", err)
	}
	var v Violation
	if err := json.Unmarshal(b, &v); err != nil {
		fatalf("%v", err)
	}
	x.replaying = true
	x.maxViol = 1000
	n := 0
	for pi, p := range passes {
		if p.Name != v.Pass {
			continue
		}
		x.passIdx, x.pass = pi, p
		setPassBudget(p)
		x.curInput = v.Input
		x.cfgIdx, x.skipCfg = -1, -1
		p.Eval(x, v.Input)
		n++
	}
	x.out.Flush()
	if n == 0 {
		fmt.Println("replay: pass", v.Pass, "does not exist in this tier; use the tier the violation was found in")
		return 2
	}
	same := 0
	for _, r := range x.replayed {
		fmt.Printf("REPLAY %s class=%s known=%q cfg=%v\n  %s\n", r.Prop, r.Class, r.Known, cfgStr(r.Cfg), strings.ReplaceAll(r.Detail, "\n", "\n  "))
		if r.Class == v.Class {
			same++
		}
	}
	fmt.Printf("replay: input %v: %d violation(s), %d of the recorded class %q\n", v.Input.E, len(x.replayed), same, v.Class)
	if same > 0 {
		return 1
	}
	return 0
}

func cfgStr(c *Cfg) string {
	if c == nil {
		return "-"
	}
	return c.String()
}

var reFrame = regexp.MustCompile(`(?m)^github\.com/nulab/autog/(internal/)?(.+)\([^()]*\)$`)

// stuckFunction names the innermost function of the module under test on the main goroutine's stack.
func stuckFunction(dump string) string {
	// goroutine 1 is the explorer loop
	i := strings.Index(dump, "goroutine 1 [")
	if i < 0 {
		return "?"
	}
	d := dump[i:]
	if j := strings.Index(d, "\n\n"); j > 0 {
		d = d[:j]
	}
	for _, m := range reFrame.FindAllStringSubmatch(d, -1) {
		fn := m[2]
		if strings.HasPrefix(fn, "verifx/") || strings.HasPrefix(fn, "verifrt") {
			continue
		}
		fn = regexp.MustCompile(`(\.func[0-9]+|\.[0-9]+)+$`).ReplaceAllString(fn, "")
		return fn
	}
	return "?"
}

package main

import (
	"fmt"
)

var checks = map[string]func(tier string) []*Pass{}

// ---- configuration grids

type gridSpec struct {
	P3                     []int
	P1, P2, P4, P5, SZ, TH []int
	SP                     [][2]float64
	Virt                   []bool
}

var (
	allP1   = []int{0, 1}
	allP2   = []int{0, 1}
	allP4   = []int{0, 1, 2, 3, 4, 5, 6, 7, 8}
	saP4    = []int{0, 1, 2, 3}
	allP5   = []int{0, 1, 2, 3, 4}
	spStd   = [][2]float64{{4, 8}}
	spAll   = [][2]float64{{4, 8}, {0, 8}, {4, 0}, {0, 0}}
	spLSpos = [][2]float64{{4, 8}, {0, 8}}
)

func (g gridSpec) list() []Cfg {
	if g.TH == nil {
		g.TH = []int{-1}
	}
	if g.SP == nil {
		g.SP = spStd
	}
	if g.Virt == nil {
		g.Virt = []bool{false}
	}
	if g.P3 == nil {
		g.P3 = []int{0}
	}
	var out []Cfg
	for _, sz := range g.SZ {
		for _, sp := range g.SP {
			for _, th := range g.TH {
				for _, vt := range g.Virt {
					for _, p1 := range g.P1 {
						for _, p2 := range g.P2 {
							for _, p4 := range g.P4 {
								for _, p5 := range g.P5 {
									for _, p3 := range g.P3 {
										out = append(out, Cfg{P1: p1, P2: p2, P3: p3, P4: p4, P5: p5, SZ: sz, NS: sp[0], LS: sp[1], TH: th, Virt: vt})
									}
								}
							}
						}
					}
				}
			}
		}
	}
	return out
}

// forPicks runs f for the configuration itself, or — for the non-deterministic greedy breaker (P1 == 2) — for
// every sequence of answers of the random node choice (choice-point DFS over hook H1, unbounded).
func forPicks(x *Ctx, in Input, c Cfg, f func(c Cfg, r *Res)) {
	if c.P1 != 2 {
		if !x.Unit(&c) {
			return
		}
		f(c, x.Run(in, c, nil))
		return
	}
	var rec func(prefix []int)
	rec = func(prefix []int) {
		cc := c
		cc.Picks = prefix
		if !x.Unit(&cc) {
			// still need the trace to enumerate the subtree: re-run silently
			r := exec(in, cc, nil)
			for i := len(prefix); i < len(r.PickN); i++ {
				for alt := 1; alt < r.PickN[i]; alt++ {
					rec(append(append(append([]int(nil), prefix...), make([]int, i-len(prefix))...), alt))
				}
			}
			return
		}
		r := x.Run(in, cc, nil)
		x.Hist("random-picks-per-run", len(r.PickN))
		full := append([]int(nil), prefix...)
		for len(full) < len(r.PickN) {
			full = append(full, 0)
		}
		cc.Picks = full
		f(cc, r)
		for i := len(prefix); i < len(r.PickN); i++ {
			for alt := 1; alt < r.PickN[i]; alt++ {
				rec(append(append(append([]int(nil), prefix...), make([]int, i-len(prefix))...), alt))
			}
		}
	}
	rec(nil)
}

// stdEval builds the standard evaluation: every configuration of the grid on the input, judged by oracle.
// Abnormal ends are C01's violations; for every other property they are recorded as blocked.
func stdEval(prop string, grid func(in Input, a *Analysis) []Cfg, oracle func(x *Ctx, in Input, a *Analysis, c Cfg, r *Res) bool) func(x *Ctx, in Input) {
	return func(x *Ctx, in Input) {
		a := analyze(in)
		for _, c := range grid(in, a) {
			forPicks(x, in, c, func(c Cfg, r *Res) {
				if !r.OK() {
					if prop == "C01" {
						x.Violate(r.Class(), &c, nil, "Layout panicked: "+r.Panic)
					} else {
						x.Blocked(r)
					}
					if x.InValidationSlice() || x.valMode {
						x.Validate(r.Ser())
					}
					return
				}
				nontrivial := oracle(x, in, a, c, r)
				if nontrivial || x.InValidationSlice() || x.valMode {
					s := r.Ser()
					if nontrivial {
						x.Nontrivial(s)
					}
					x.Validate(s)
				}
				for _, p := range r.Pivots {
					if c.P2 == 0 {
						x.Hist("ns-pivots-per-run", p.Pivots)
						break
					}
				}
			})
		}
		x.Sample(map[string]any{"input": in.E})
	}
}

func staticGrid(cs []Cfg) func(in Input, a *Analysis) []Cfg {
	return func(Input, *Analysis) []Cfg { return cs }
}

func tierPick[T any](tier string, quick, thorough T) T {
	if tier == "thorough" {
		return thorough
	}
	return quick
}

func init() {
	// what is left of the Splines router's known finding after fix 5a114c0: the end point of an edge sits on a CORNER of
	// its corridor (only a zero-width node can: the end point is the middle of the node's side), or the positions come
	// from Brandes-Koepf, which may leave nodes overlapping (C04 excludes it) so that a corridor has no interior
	inputPreds["splines-zero-width-node-or-bk"] = func(in Input, c *Cfg) bool {
		if c == nil || c.P5 != 4 {
			return false
		}
		if c.P4 >= 4 {
			return true
		}
		for i, n := 0, in.N(); i < n; i++ {
			if w, _ := c.expSize(i); w == 0 {
				return true
			}
		}
		return false
	}
	// ------------------------------------------------------------ C01
	checks["C01"] = func(tier string) []*Pass {
		noop := func(*Ctx, Input, *Analysis, Cfg, *Res) bool { return true }
		full := gridSpec{P1: allP1, P2: allP2, P4: allP4, P5: []int{0, 1, 2, 3}, SZ: []int{1, 2}}.list()
		splines := gridSpec{P1: allP1, P2: allP2, P4: allP4, P5: []int{4}, SZ: []int{1, 2}}.list()
		wide := gridSpec{P1: allP1, P2: allP2, P4: allP4, P5: []int{0, 1, 2, 3}, SZ: []int{0, 1, 2, 3, 4}, SP: spAll, TH: []int{28, 1, 0}}.list()
		cheap := gridSpec{P1: allP1, P2: allP2, P4: []int{1}, P5: []int{1}, SZ: []int{1}}.list()
		rnd := gridSpec{P1: []int{2}, P2: allP2, P4: []int{0, 4}, P5: []int{2}, SZ: []int{1}}.list()
		ps := []*Pass{
			{Name: "G3-wide-grid", Space: spaceG(1, 3, 0, nil), Eval: stdEval("C01", staticGrid(wide), noop),
				Bound: "all edge lists with <=3 edges x {greedy,dfs} x {ns,lp} x 9 positioners x {noop,straight,polyline,ortho} x 5 size modes x 4 spacings x thoroughness {28,1,0}"},
			{Name: "G4-full-grid", Space: spaceG(4, 4, 0, nil), Eval: stdEval("C01", staticGrid(full), noop),
				Bound: "all edge lists with 4 edges x 2x2x9x4 algorithms x {fixed, per-node} sizes"},
			{Name: "G3-splines", BudgetS: 5, HeapMB: 256, Space: spaceG(1, 3, 0, nil), Eval: stdEval("C01", staticGrid(splines), noop),
				Bound: "all edge lists with <=3 edges x 2x2x9 algorithms x splines x {fixed, per-node} sizes"},
			{Name: "G4-splines-sa", BudgetS: 5, HeapMB: 256, Space: spaceG(4, 4, 0, nil), Eval: stdEval("C01", staticGrid(gridSpec{P1: allP1, P2: allP2, P4: []int{0, 1, 2, 3}, P5: []int{4}, SZ: []int{1, 9}}.list()), noop),
				Bound: "all edge lists with 4 edges x {greedy,dfs} x {ns,lp} x 4 size-aware positioners x splines x {fixed, per-node mixed-parity} sizes (all widths positive: outside the known-finding class)"},
			{Name: "G3-splines-wide", BudgetS: 5, HeapMB: 256, Space: spaceG(1, 3, 0, nil), Eval: stdEval("C01", staticGrid(gridSpec{P1: allP1, P2: allP2, P4: allP4, P5: []int{4}, SZ: []int{0, 1, 2, 3, 4}, SP: spAll}.list()), noop),
				Bound: "all edge lists with <=3 edges x 2x2x9 algorithms x splines x 5 size modes (incl. no sizes at all) x 4 spacings (incl. 0)"},
			{Name: "G4-random-greedy", Space: spaceG(1, 4, 0, func(in Input, a *Analysis) bool { return !a.DAG }), Eval: stdEval("C01", staticGrid(rnd), noop),
				Bound: "all cyclic edge lists with <=4 edges x greedy-random with EVERY sequence of RNG answers x {ns,lp} x {sink,bk} x polyline"},
			{Name: "G5-cheap-tail", Space: spaceG(5, 5, 0, nil), Eval: stdEval("C01", staticGrid(cheap), noop),
				Bound: "all edge lists with 5 edges x {greedy,dfs} x {ns,lp} x valign x straight"},
			{Name: "families", Space: spaceList(c01Families(tier)), Eval: stdEval("C01", famGrid, noop),
				Bound: "structured families: chains/ladders with 60-70 layers, K(a,b) up to 6x6, binary trees, stars, 400-node chain x {greedy,dfs} x {ns,lp} x {sink,valign,bk} (+ ns positioner up to 40 nodes: documented as time-intensive beyond a few dozen nodes) x {polyline,ortho} x {fixed,per-node}"},
			{Name: "macro-3", Space: spaceMacro(3, false), Eval: stdEval("C01", staticGrid(gridSpec{P1: allP1, P2: allP2, P4: []int{0, 4}, P5: []int{2}, SZ: []int{2}}.list()), noop),
				Bound: "every graph built by <=3 gadget insertions (path, fan-in/out of 2..3, 3-cycle, 4-cycle, diamond, long-edge triangle) at any node: shapes with up to 13 edges x {greedy,dfs} x {ns,lp} x {sink,bk} x polyline"},
			{Name: "macro-3-doubled", Space: spaceDoubled(spaceMacro(3, false)), Eval: stdEval("C01", staticGrid(gridSpec{P1: []int{0}, P2: []int{0}, P4: []int{0}, P5: []int{2}, SZ: []int{2}}.list()), noop),
				Bound: "every graph built by <=3 gadget insertions with ONE edge doubled (parallel copy next to it / at the end of the list, antiparallel copy at the end): multi-edges between wide adjacent layers x default algorithms"},
			{Name: "layered-doubled", Space: spaceDoubled(spaceConcat(spaceLayered([]int{2, 3, 2}, true), spaceLayered([]int{3, 2, 3}, true), spaceLayered([]int{2, 2, 2, 2}, true))), Eval: stdEval("C01", staticGrid(gridSpec{P1: []int{0}, P2: []int{0}, P4: []int{0}, P5: []int{2}, SZ: []int{1}}.list()), noop),
				Bound: "every connected proper layered graph on 2+3+2, 3+2+3 and 2+2+2+2 nodes with ONE edge doubled (parallel next to it / at the end, antiparallel at the end): multi-edges between two wide layers next to another wide layer pair x default algorithms"},
			{Name: "macro-2-edges", Space: spaceMacro(2, true), Eval: stdEval("C01", staticGrid(gridSpec{P1: allP1, P2: allP2, P4: []int{0, 1, 3, 4}, P5: []int{2, 3}, SZ: []int{2}}.list()), noop),
				Bound: "every graph built by <=2 operations from {gadget insertion, edge between existing nodes} x {greedy,dfs} x {ns,lp} x {sink,valign,ns,bk} x {polyline,ortho}"},
			{Name: "seeds", Space: spaceSeeded(seedWitnesses, tierPick(tier, 1, 2)), Eval: stdEval("C01", staticGrid(gridSpec{P1: allP1, P2: allP2, P4: []int{0, 1, 3, 4}, P5: []int{2, 3}, SZ: []int{1, 2}}.list()), noop),
				Bound: fmt.Sprintf("all states within %d edit operations of the recorded witnesses", tierPick(tier, 1, 2))},
		}
		if tier == "thorough" {
			ps = append(ps,
				&Pass{Name: "G5-full-grid", Space: spaceG(5, 5, 0, nil), Eval: stdEval("C01", staticGrid(full), noop),
					Bound: "all edge lists with 5 edges x 2x2x9x4 algorithms x {fixed, per-node} sizes"},
				&Pass{Name: "G4-splines", BudgetS: 5, HeapMB: 256, Space: spaceG(4, 4, 0, nil), Eval: stdEval("C01", staticGrid(splines), noop),
					Bound: "all edge lists with 4 edges x 2x2x9 algorithms x splines x {fixed, per-node} sizes"},
				&Pass{Name: "G6-cheap-tail", Space: spaceG(6, 6, 0, nil), Eval: stdEval("C01", staticGrid(cheap), noop),
					Bound: "all edge lists with 6 edges x {greedy,dfs} x {ns,lp} x valign x straight"},
				&Pass{Name: "G7n4-cheap-tail", Space: spaceG(7, 7, 4, nil), Eval: stdEval("C01", staticGrid(cheap), noop),
					Bound: "all edge lists with 7 edges on <=4 nodes x {greedy,dfs} x {ns,lp} x valign x straight"},
				&Pass{Name: "G5-random-greedy", Space: spaceG(5, 5, 0, func(in Input, a *Analysis) bool { return !a.DAG }), Eval: stdEval("C01", staticGrid(rnd), noop),
					Bound: "all cyclic edge lists with 5 edges x greedy-random with EVERY sequence of RNG answers"},
			)
		}
		return ps
	}

	// ------------------------------------------------------------ C02
	checks["C02"] = func(tier string) []*Pass {
		or := func(x *Ctx, in Input, a *Analysis, c Cfg, r *Res) bool {
			oracleC02(x, in, a, c, r)
			return in.M() >= 2
		}
		g := gridSpec{P1: allP1, P2: allP2, P4: []int{0, 1}, P5: []int{2, 0}, SZ: []int{0, 1, 2, 3, 4, 10}, Virt: []bool{false, true}}.list()
		rnd := gridSpec{P1: []int{2}, P2: allP2, P4: []int{1}, P5: []int{2}, SZ: []int{4}, Virt: []bool{false, true}}.list()
		other := gridSpec{P1: allP1, P2: []int{0}, P4: []int{2, 3, 4, 6}, P5: []int{1, 3}, SZ: []int{4}}.list()
		cheap := gridSpec{P1: allP1, P2: allP2, P4: []int{1}, P5: []int{2}, SZ: []int{4}, Virt: []bool{false, true}}.list()
		// every positioner once at the deeper level too (positioners write into the same Size struct: X, Y next to W, H)
		cheap = append(cheap, gridSpec{P1: []int{0}, P2: []int{0}, P4: []int{0, 2, 3, 4, 7}, P5: []int{0}, SZ: []int{1, 4}}.list()...)
		d := tierPick(tier, 4, 5)
		ps := []*Pass{
			{Name: "G-main", Space: spaceG(1, d, 0, nil), Eval: stdEval("C02", staticGrid(g), or),
				Bound: fmt.Sprintf("all edge lists with <=%d edges x {greedy,dfs} x {ns,lp} x {sink,valign} x {polyline,noop} x 6 size modes (none, fixed, per-node, partial map, partial map over a fixed size, the same with a node listed as 0x0) x virtual-node output {off,on}", d)},
			{Name: "G-other-algs", Space: spaceG(1, d, 0, nil), Eval: stdEval("C02", staticGrid(other), or),
				Bound: fmt.Sprintf("all edge lists with <=%d edges x {greedy,dfs} x ns x {packright,ns,bk,bk1} x {straight,ortho} x partial size map over fixed size", d)},
			{Name: "G-random-greedy", Space: spaceG(1, 4, 0, func(in Input, a *Analysis) bool { return !a.DAG }), Eval: stdEval("C02", staticGrid(rnd), or),
				Bound: "all cyclic edge lists with <=4 edges x greedy-random with every RNG answer sequence"},
			{Name: "G-deep-cheap", Space: spaceG(d+1, d+1, tierPick(tier, 0, 5), nil), Eval: stdEval("C02", staticGrid(cheap), or),
				Bound: fmt.Sprintf("all edge lists with %d edges (thorough: <=5 nodes) x {greedy,dfs} x {ns,lp} x valign x polyline x virtual {off,on}", d+1)},
			{Name: "macro-3", Space: spaceMacro(3, false), Eval: stdEval("C02", staticGrid(gridSpec{P1: allP1, P2: allP2, P4: []int{0, 4}, P5: []int{2}, SZ: []int{4}, Virt: []bool{false, true}}.list()), or),
				Bound: "every graph built by <=3 gadget insertions (shapes with up to 13 edges) x {greedy,dfs} x {ns,lp} x {sink,bk} x polyline x partial size map x virtual {off,on}"},
			{Name: "seeds", Space: spaceSeeded(seedWitnesses, tierPick(tier, 1, 2)), Eval: stdEval("C02", staticGrid(cheap), or),
				Bound: "all states within 1 (thorough 2) edit operations of the recorded witnesses"},
		}
		if tier == "thorough" {
			ps = append(ps, &Pass{Name: "G7n5-cheap", Space: spaceG(7, 7, 4, nil), Eval: stdEval("C02", staticGrid(gridSpec{P1: allP1, P2: allP2, P4: []int{1}, P5: []int{2}, SZ: []int{1}}.list()), or),
				Bound: "all edge lists with 7 edges on <=4 nodes x {greedy,dfs} x {ns,lp} x valign x polyline"})
		}
		return ps
	}

	// ------------------------------------------------------------ C03
	checks["C03"] = func(tier string) []*Pass {
		or := func(x *Ctx, in Input, a *Analysis, c Cfg, r *Res) bool {
			oracleC03(x, in, a, c, r)
			return in.M()-a.SelfLoops >= 2
		}
		cheap := gridSpec{P1: allP1, P2: allP2, P4: []int{1}, P5: []int{0}, SZ: []int{1, 2}, SP: spLSpos}.list()
		full := gridSpec{P1: allP1, P2: allP2, P4: allP4, P5: []int{0, 2}, SZ: []int{1, 2}, SP: spLSpos}.list()
		rnd := gridSpec{P1: []int{2}, P2: allP2, P4: []int{1}, P5: []int{0}, SZ: []int{2}}.list()
		ps := []*Pass{
			{Name: "G4-all-positioners", Space: spaceG(1, 4, 0, nil), Eval: stdEval("C03", staticGrid(full), or),
				Bound: "all edge lists with <=4 edges x {greedy,dfs} x {ns,lp} x 9 positioners x {noop,polyline} x {fixed,per-node} sizes x spacings {(4,8),(0,8)}"},
			{Name: "G5-cheap-tail", Space: spaceG(5, 5, 0, nil), Eval: stdEval("C03", staticGrid(cheap), or),
				Bound: "all edge lists with 5 edges x {greedy,dfs} x {ns,lp} x valign x {fixed,per-node} sizes x 2 spacings"},
			{Name: "G6n4", Space: spaceG(6, 6, 4, nil), Eval: stdEval("C03", staticGrid(gridSpec{P1: allP1, P2: allP2, P4: []int{1}, P5: []int{0}, SZ: []int{2}}.list()), or),
				Bound: "all edge lists with 6 edges on <=4 nodes (dense, cyclic multigraphs) x {greedy,dfs} x {ns,lp} x valign x per-node sizes"},
			{Name: "G4-random-greedy", Space: spaceG(1, 4, 0, func(in Input, a *Analysis) bool { return !a.DAG }), Eval: stdEval("C03", staticGrid(rnd), or),
				Bound: "all cyclic edge lists with <=4 edges x greedy-random with every RNG answer sequence x {ns,lp}"},
			{Name: "D(6,7)", Space: spaceD(6, 5, 7, false), Eval: stdEval("C03", staticGrid(gridSpec{P1: []int{0}, P2: allP2, P4: []int{1}, P5: []int{0}, SZ: []int{1}}.list()), or),
				Bound: "every multiset of 5..7 edges over the 15 pairs u<v of 6 nodes (DAGs; the space where network simplex pivots)"},
			{Name: "macro-3", Space: spaceMacro(3, false), Eval: stdEval("C03", staticGrid(gridSpec{P1: allP1, P2: allP2, P4: []int{1}, P5: []int{0}, SZ: []int{2}}.list()), or),
				Bound: "every graph built by <=3 gadget insertions (shapes with up to 13 edges) x {greedy,dfs} x {ns,lp} x valign x per-node sizes"},
			{Name: "pivot-rich-neighbourhood", Space: spaceSeeded(pivotRichSeeds, tierPick(tier, 1, 2)), Eval: stdEval("C03", staticGrid(gridSpec{P1: []int{0}, P2: []int{0}, P4: []int{1}, P5: []int{0}, SZ: []int{1}}.list()), or),
				Bound: "every state within 1 (thorough 2) edit operations of 19 recorded DAGs on which the simplex makes 4..5 pivots (8..10 nodes, 11..15 edges) x ns layering"},
			{Name: "seeds", Space: spaceSeeded(seedWitnesses, tierPick(tier, 1, 2)), Eval: stdEval("C03", staticGrid(cheap), or),
				Bound: "all states within 1 (thorough 2) edit operations of the recorded witnesses"},
			{Name: "DS7", Space: spaceBothOrders(spaceDS(7, 9, tierPick(tier, 10, 12))), Eval: stdEval("C03", staticGrid(gridSpec{P1: []int{0}, P2: []int{0}, P4: []int{1}, P5: []int{0}, SZ: []int{1}}.list()), or),
				Bound: fmt.Sprintf("every connected simple DAG on 7 topologically labelled nodes with 9..%d edges, edge list in lexicographic and in reverse order (where the simplex pivots more than once) x ns layering", tierPick(tier, 10, 12))},
			{Name: "parallel-chains", Space: spaceList(thetaFamilies(tierPick(tier, 5, 4), tier == "thorough")), Eval: stdEval("C03", staticGrid(gridSpec{P1: []int{0}, P2: allP2, P4: []int{1}, P5: []int{0}, SZ: []int{1}}.list()), or),
				Bound: "two paths with 1..5 edges each (thorough: three with 1..4) between a top and a bottom node + at most one extra node attached by two edges at every pair of nodes, 10 edge-list orders each x {ns,lp}"},
		}
		if tier == "thorough" {
			ps = append(ps,
				&Pass{Name: "DS8", Space: spaceBothOrders(spaceDS(8, 10, 11)), Eval: stdEval("C03", staticGrid(gridSpec{P1: []int{0}, P2: []int{0}, P4: []int{1}, P5: []int{0}, SZ: []int{1}}.list()), or),
					Bound: "every connected simple DAG on 8 topologically labelled nodes with 10..11 edges, 2 edge orders x ns layering"},
				&Pass{Name: "G6-cheap-tail", Space: spaceG(6, 6, 0, nil), Eval: stdEval("C03", staticGrid(gridSpec{P1: allP1, P2: allP2, P4: []int{1}, P5: []int{0}, SZ: []int{2}}.list()), or),
					Bound: "all edge lists with 6 edges x {greedy,dfs} x {ns,lp} x valign x per-node sizes"},
				&Pass{Name: "G7n4-cheap-tail", Space: spaceG(7, 7, 4, nil), Eval: stdEval("C03", staticGrid(gridSpec{P1: allP1, P2: allP2, P4: []int{1}, P5: []int{0}, SZ: []int{2}}.list()), or),
					Bound: "all edge lists with 7 edges on <=4 nodes x {greedy,dfs} x {ns,lp} x valign x per-node sizes"},
				&Pass{Name: "G5-all-positioners", Space: spaceG(5, 5, 0, nil), Eval: stdEval("C03", staticGrid(gridSpec{P1: allP1, P2: allP2, P4: allP4, P5: []int{0}, SZ: []int{2}}.list()), or),
					Bound: "all edge lists with 5 edges x {greedy,dfs} x {ns,lp} x 9 positioners x per-node sizes"},
				&Pass{Name: "D(6,8..9)", Space: spaceD(6, 8, 9, false), Eval: stdEval("C03", staticGrid(gridSpec{P1: []int{0}, P2: allP2, P4: []int{1}, P5: []int{0}, SZ: []int{1}}.list()), or),
					Bound: "every multiset of 8..9 edges over the 15 pairs u<v of 6 nodes"},
			)
		}
		return ps
	}
}

// witnesses of defects found in the pinned tree (both fixed and known): seed states of the E1s search
var seedWitnesses = [][]int{
	{0, 1},
	{0, 1, 0, 1},
	{0, 1, 0, 1, 0, 2, 1, 3, 1, 3, 1, 3, 3, 0},
	{0, 1, 1, 0, 2, 3, 0, 2, 2, 1, 4, 3, 4, 1},
	{0, 1, 0, 2},
	{0, 1, 0, 2, 3, 1},
	{0, 1, 0, 2, 0, 3, 4, 1, 5, 2},
	{0, 1, 2, 1},
	{0, 1, 0, 2, 2, 3},
	{0, 0, 1, 2},
	{0, 1, 0, 1, 0, 2, 0, 2},
	{0, 0, 0, 1, 1, 1},
	{0, 1, 2, 1, 3, 4, 1, 4},
	{0, 1, 0, 2, 0, 2, 0, 3, 0, 3, 1, 4, 2, 4, 3, 4},
	{0, 1, 1, 2, 0, 2},
	{0, 1, 0, 2, 1, 3, 1, 3, 1, 3, 1, 4, 2, 5, 2, 4, 5, 3},
	{0, 1, 0, 1, 0, 1, 0, 2, 0, 3, 4, 5, 4, 2, 4, 3, 5, 1},
}

var famGridSmall = gridSpec{P1: allP1, P2: allP2, P4: []int{0, 1, 3, 4}, P5: []int{2, 3}, SZ: []int{1, 2}}.list()
var famGridLarge = gridSpec{P1: allP1, P2: allP2, P4: []int{0, 1, 4}, P5: []int{2, 3}, SZ: []int{1, 2}}.list()

// the NetworkSimplex positioner is documented as time-intensive beyond a few dozen nodes: it is driven on the
// small family members only
func famGrid(in Input, a *Analysis) []Cfg {
	if a.N > 40 {
		return famGridLarge
	}
	return famGridSmall
}

func c01Families(tier string) []Input {
	var ins []Input
	for _, L := range []int{60, 64, 65, 70} {
		for k := 2; k <= 3; k++ {
			for pat := 0; pat < 8; pat += 3 {
				ins = append(ins, famChains(k, L, L-3, pat))
			}
		}
	}
	for a := 1; a <= 6; a++ {
		for b := 1; b <= 6; b++ {
			ins = append(ins, famBipartite(a, b))
		}
	}
	for d := 1; d <= tierPick(tier, 5, 6); d++ {
		ins = append(ins, famBinTree(d, true), famBinTree(d, false))
	}
	for _, L := range []int{10, 66} {
		for p := 0; p < 8; p++ {
			ins = append(ins, famLadder(L, p))
		}
	}
	ins = append(ins, famChain(400), famStar(40, true), famStar(40, false))
	return ins
}

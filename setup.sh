#!/bin/sh
# Builds the harness tools from files on disk only (offline). Idempotent.
set -e
cd "$(dirname "$0")"
export VERIF_DIR="${VERIF_DIR:-$(pwd)}"
export GOFLAGS=-mod=mod GOPROXY=off GOSUMDB=off GOTOOLCHAIN=local
mkdir -p .work evidence replays
(cd vmc && go build -o ../.work/vmc ./super)
# warm the build cache: instrument and build the worker once in every mode
./.work/vmc warm
echo "setup ok"

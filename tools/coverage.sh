#!/bin/sh
# Coverage audit (vacuity guard, not a deciding step): builds the worker with -cover in a throw-away physical copy of
# /repo (go's cover tool does not follow -overlay for added files), runs a 1/16 slice of every property's quick
# space in one process each, and prints per-function block coverage of the autog packages.
# usage: tools/coverage.sh [props...]        output: mutants/coverage.txt
set -e
V="$(cd "$(dirname "$0")/.." && pwd)"
export GOFLAGS=-mod=mod GOPROXY=off GOSUMDB=off GOTOOLCHAIN=local
C=$(mktemp -d /tmp/vcov-XXXXXX)
trap 'rm -rf "$C"' EXIT
mkdir -p "$C/repo" "$C/cov"
(cd /repo && git ls-files -z | xargs -0 cp --parents -t "$C/repo")
VERIF_REPO="$C/repo" VERIF_WORK="$C/work" "$V/.work/vmc" instr mapctl "$C/ov" >/dev/null
python3 - "$C" <<'PY'
import json,sys,os,shutil
c=sys.argv[1]
ov=json.load(open(f"{c}/ov/overlay.json"))["Replace"]
for target,src in ov.items():
    os.makedirs(os.path.dirname(target),exist_ok=True)
    shutil.copy(src,target)
PY
(cd "$C/repo" && go build -tags verif -cover -coverpkg=github.com/nulab/autog/... -o "$C/worker" github.com/nulab/autog/verifx/worker)
PROPS="${*:-C01 C02 C03 C04 C05 C06 C07 C08 C09 C10 C11 C12 C13 C14 C16 C17 C18 C19 C20}"
for p in $PROPS; do
  echo "coverage run: $p" >&2
  GOCOVERDIR="$C/cov" timeout 600 "$C/worker" -prop $p -tier quick -shard 0/16 -known "$V/known_findings.json" -deadline 120 -budget 20 >/dev/null 2>&1 || true
done
go tool covdata func -i "$C/cov" 2>/dev/null | grep -v "verifx/\|verifrt\|_gen.go\|verif_" | sed "s|github.com/nulab/autog/||" > "$V/mutants/coverage.txt"
awk '{print $NF, $0}' "$V/mutants/coverage.txt" | sort -n | head -60
tail -1 "$V/mutants/coverage.txt"

package main

import (
	"bufio"
	"encoding/binary"
	"encoding/json"
	"fmt"
	"os"
	"runtime"
	"runtime/debug"
	"runtime/metrics"
	"sort"
	"strings"
	"sync"
	"sync/atomic"
	"syscall"
	"time"
)

// A Pass explores one sub-space of a property check: every input of Space, and for each input whatever
// Eval decides to execute (usually a configuration grid), judged by the property's oracle inside Eval.
type Pass struct {
	Name  string
	Space func(emit func(in Input))
	Eval  func(x *Ctx, in Input)
	// Bound is a human-readable statement of the bound completed when the pass finishes.
	Bound string
	// BudgetS / HeapMB override the per-unit wall and heap budgets for this pass (0 = default).
	BudgetS float64
	HeapMB  int
}

type Violation struct {
	Prop   string          `json:"property"`
	Class  string          `json:"class"` // refactoring-stable class (oracle clause / panic site) used for known-finding matching
	Pass   string          `json:"pass"`
	Input  Input           `json:"input"`
	Cfg    *Cfg            `json:"cfg,omitempty"`
	Extra  json.RawMessage `json:"extra,omitempty"` // check-specific replay data (choices, scale, renaming, ...)
	Detail string          `json:"detail"`
	GoTest string          `json:"go_test,omitempty"` // a plain unit test that replays the case without the explorer
}

type Stats struct {
	States       int64                       `json:"states"`      // inputs (canonical operation sequences) evaluated by this worker
	Transitions  int64                       `json:"transitions"` // operation steps generated while enumerating (whole space, every worker generates all of it)
	Evaluations  int64                       `json:"evaluations"` // executions of the real code
	Nontrivial   int64                       `json:"nontrivial"`  // distinct (input,cfg) cases that are non-trivial for the property
	Blocked      int64                       `json:"blocked"`     // cases whose execution ended abnormally (C01's business) while checking another property
	BlockedClass map[string]int64            `json:"blocked_class,omitempty"`
	Validated    int64                       `json:"validated"` // executions replayed a second time / compared with another build
	Violations   int64                       `json:"violations"`
	Known        map[string]int64            `json:"known,omitempty"` // known-finding id -> matched cases
	KnownWitness map[string]json.RawMessage  `json:"known_witness,omitempty"`
	ViolClass    map[string]int64            `json:"viol_class,omitempty"`
	Hist         map[string]map[string]int64 `json:"hist,omitempty"`
	Samples      []json.RawMessage           `json:"samples,omitempty"`
	Uncontrolled map[string]int64            `json:"uncontrolled,omitempty"`
	PassBounds   []string                    `json:"pass_bounds,omitempty"`
	PassStates   map[string]int64            `json:"pass_states,omitempty"`
	PassEvals    map[string]int64            `json:"pass_evals,omitempty"`
	DeadlineHit  bool                        `json:"deadline_hit"`
	DistinctObs  int64                       `json:"distinct_obs"`
	DistinctCap  bool                        `json:"distinct_capped"`
	Notes        []string                    `json:"notes,omitempty"`
}

// Ctx is what a pass sees.
type Ctx struct {
	prop   string
	tier   string
	seed   int64
	shard  int
	nshard int
	// resume position after a fatal crash of a previous incarnation
	afterPass, afterCfg int
	afterInput          int64
	stopAt              int64 // stop after this many units (replay/debug)

	passIdx  int
	pass     *Pass
	inputIdx int64 // index of the current input within the pass (all workers agree)
	cfgIdx   int   // index of the current execution unit within the input
	skipCfg  int   // units of the current input with index <= skipCfg were done (or crashed) in a previous incarnation

	slot []byte
	seq  uint64

	st         Stats
	obs        map[uint64]struct{}
	out        *bufio.Writer
	outMu      sync.Mutex
	valOut     *bufio.Writer // validation slice: (pass,input,cfg,hash) lines
	valWritten int
	valInputs  map[[2]int64]bool // validation mode: the inputs that have recorded units
	valIn      map[string]uint64
	valMode    bool
	deadline   time.Time
	maxViol    int
	curInput   Input
	curCfg     *Cfg

	locating  bool
	locCfg    int
	located   bool
	replaying bool
	replayed  []ReplayRec
}

type ReplayRec struct {
	Prop, Class, Known, Detail string
	Cfg                        *Cfg
}

const obsCap = 400000

func (x *Ctx) emitLine(v any) {
	b, _ := json.Marshal(v)
	x.outMu.Lock()
	x.out.Write(b)
	x.out.WriteByte('\n')
	x.out.Flush()
	x.outMu.Unlock()
}

// Unit brackets one execution unit (one configuration of the current input): crash attribution, resume, slot.
// It returns false if the unit must be skipped (already done before a crash).
func (x *Ctx) Unit(c *Cfg) bool {
	x.cfgIdx++
	if x.locating {
		if x.cfgIdx == x.locCfg {
			x.located = true
			preds := map[string]bool{}
			for name, f := range inputPreds {
				preds[name] = f(x.curInput, c)
			}
			x.emitLine(map[string]any{"t": "L", "pass": x.pass.Name, "input": x.curInput, "cfg": c, "preds": preds})
		}
		return false
	}
	if x.cfgIdx <= x.skipCfg {
		return false
	}
	x.curCfg = c
	x.seq++
	if x.slot != nil {
		binary.LittleEndian.PutUint32(x.slot[0:], uint32(x.passIdx))
		binary.LittleEndian.PutUint64(x.slot[8:], uint64(x.inputIdx))
		binary.LittleEndian.PutUint32(x.slot[16:], uint32(x.cfgIdx))
		binary.LittleEndian.PutUint64(x.slot[24:], uint64(time.Now().UnixNano()))
		binary.LittleEndian.PutUint64(x.slot[32:], x.seq)
	}
	atomic.StoreUint64(&wdSeq, x.seq)
	return true
}

// Run executes the real Layout once and counts it.
func (x *Ctx) Run(in Input, c Cfg, choices map[int]int) *Res {
	x.st.Evaluations++
	x.st.PassEvals[x.pass.Name]++
	atomic.AddUint64(&wdBeat, 1) // the wall budget is per execution of the real code
	r := exec(in, c, choices)
	for k, v := range r.Uncontrolled {
		if x.st.Uncontrolled == nil {
			x.st.Uncontrolled = map[string]int64{}
		}
		x.st.Uncontrolled[k] += int64(v)
	}
	return r
}

// Blocked records that a case could not be judged for this property because Layout ended abnormally.
func (x *Ctx) Blocked(r *Res) {
	x.st.Blocked++
	if x.st.BlockedClass == nil {
		x.st.BlockedClass = map[string]int64{}
	}
	x.st.BlockedClass[r.Class()]++
}

// Nontrivial counts a distinct non-trivial case and records the hash of what was observed.
func (x *Ctx) Nontrivial(obs []byte) {
	x.st.Nontrivial++
	if len(x.obs) < obsCap {
		x.obs[hash64(obs)] = struct{}{}
	} else {
		x.st.DistinctCap = true
	}
}

func (x *Ctx) Hist(name string, v any) {
	if x.st.Hist == nil {
		x.st.Hist = map[string]map[string]int64{}
	}
	h := x.st.Hist[name]
	if h == nil {
		h = map[string]int64{}
		x.st.Hist[name] = h
	}
	h[fmt.Sprint(v)]++
}

func (x *Ctx) Violate(class string, c *Cfg, extra any, detail string) {
	kf := matchKnown(x.prop, class, c, x.curInput)
	if x.replaying {
		x.replayed = append(x.replayed, ReplayRec{x.prop, class, kf, detail, c})
		return
	}
	if kf != "" {
		if x.st.Known == nil {
			x.st.Known = map[string]int64{}
			x.st.KnownWitness = map[string]json.RawMessage{}
		}
		x.st.Known[kf]++
		if _, ok := x.st.KnownWitness[kf]; !ok {
			w, _ := json.Marshal(map[string]any{"input": x.curInput, "cfg": c, "class": class})
			x.st.KnownWitness[kf] = w
		}
		return
	}
	x.st.Violations++
	if x.st.ViolClass == nil {
		x.st.ViolClass = map[string]int64{}
	}
	x.st.ViolClass[class]++
	// full records are emitted for the first few of every class only; all are counted
	if x.st.ViolClass[class] > int64(x.maxViol) {
		return
	}
	v := Violation{Prop: x.prop, Class: class, Pass: x.pass.Name, Input: x.curInput.Clone(), Cfg: c, Detail: detail}
	if extra != nil {
		v.Extra, _ = json.Marshal(extra)
	}
	if c != nil && len(x.curInput.E)%2 == 0 && len(x.curInput.E) <= 60 {
		v.GoTest = goTest(x.prop, x.curInput, *c, detail)
	}
	x.emitLine(map[string]any{"t": "V", "v": v})
}

// Sample keeps the first case a worker sees and a seed-selected handful of later ones (written to the evidence so that a
// reader can see what the explored cases look like).
func (x *Ctx) Sample(v any) {
	n := len(x.st.Samples)
	if n == 0 || (n < 6 && (uint64(x.inputIdx)*2654435761+uint64(x.seed)*40503+uint64(x.passIdx)*977)%1499 == 0) {
		b, _ := json.Marshal(v)
		x.st.Samples = append(x.st.Samples, b)
	}
}

// Validate records (validation slice) or checks (validation mode) the observation of the current unit.
func (x *Ctx) Validate(obs []byte) {
	key := fmt.Sprintf("%d:%d:%d", x.passIdx, x.inputIdx, x.cfgIdx)
	h := hash64(obs)
	if x.valMode {
		want, ok := x.valIn[key]
		if !ok {
			return
		}
		x.st.Validated++
		if want != h {
			x.emitLine(map[string]any{"t": "M", "key": key, "input": x.curInput, "cfg": x.curCfg, "pass": x.pass.Name})
		}
		return
	}
	if x.valOut != nil && x.inputIdx%valSlice == 0 && x.valWritten < valCapPerWorker {
		fmt.Fprintf(x.valOut, "%s %d\n", key, h)
		x.valWritten++
	}
}

const valSlice = 17

// at most this many units per worker are handed to the conformance pass (the slice is taken from the start of every
// worker's shard, in enumeration order, so it always contains the shallow states and a share of every pass it reaches)
const valCapPerWorker = 40000

func (x *Ctx) InValidationSlice() bool { return x.inputIdx%valSlice == 0 }

func (x *Ctx) summary(final bool) {
	x.st.DistinctObs = int64(len(x.obs))
	t := "P"
	if final {
		t = "S"
	}
	var hashes []uint64
	if final {
		hashes = make([]uint64, 0, len(x.obs))
		for h := range x.obs {
			hashes = append(hashes, h)
		}
		sort.Slice(hashes, func(i, j int) bool { return hashes[i] < hashes[j] })
	}
	x.emitLine(map[string]any{"t": t, "stats": x.st, "obs": hashes, "pass": x.passIdx, "input": x.inputIdx, "cfg": x.cfgIdx})
}

func (x *Ctx) runPasses(passes []*Pass) {
	lastProgress := time.Now()
	for pi, p := range passes {
		x.passIdx, x.pass = pi, p
		if pi < x.afterPass {
			continue
		}
		// development aid: VERIF_PASSES=name,name restricts the run to the named passes; such a run is reported as not exhaustive
		if f := os.Getenv("VERIF_PASSES"); f != "" && !strings.Contains(","+f+",", ","+p.Name+",") {
			x.st.DeadlineHit = true
			x.st.Notes = append(x.st.Notes, "pass "+p.Name+" skipped by VERIF_PASSES")
			continue
		}
		setPassBudget(p)
		x.inputIdx = -1
		stopped := false
		p.Space(func(in Input) {
			x.inputIdx++
			x.st.Transitions++
			if stopped {
				return
			}
			if x.inputIdx%int64(x.nshard) != int64(x.shard) {
				return
			}
			x.skipCfg = -1
			if pi == x.afterPass {
				if x.inputIdx < x.afterInput {
					return
				}
				if x.inputIdx == x.afterInput {
					x.skipCfg = x.afterCfg
				}
			}
			if x.valMode && (!x.InValidationSlice() || !x.valInputs[[2]int64{int64(pi), x.inputIdx}]) {
				return
			}
			if !x.deadline.IsZero() && time.Now().After(x.deadline) {
				stopped = true
				x.st.DeadlineHit = true
				x.st.Notes = append(x.st.Notes, fmt.Sprintf("deadline reached in pass %s at input index %d", p.Name, x.inputIdx))
				return
			}
			x.cfgIdx = -1
			x.curInput = in
			x.st.States++
			x.st.PassStates[p.Name]++
			p.Eval(x, in)
			if time.Since(lastProgress) > 500*time.Millisecond {
				lastProgress = time.Now()
				x.summary(false)
			}
		})
		if !stopped {
			x.st.PassBounds = append(x.st.PassBounds, p.Name+": "+p.Bound)
		} else {
			break
		}
		x.summary(false)
		lastProgress = time.Now()
	}
	atomic.StoreUint64(&wdSeq, 0)
	x.summary(true)
}

// ---- watchdog: per-unit wall budget and heap budget, enforced from a second goroutine

var wdSeq, wdBeat uint64

func wdBeatAdd() { atomic.AddUint64(&wdBeat, 1) }

var wdBudgetNs, wdHeap, wdDefBudgetNs, wdDefHeap int64
var budgetScale = 1.0

func setPassBudget(p *Pass) {
	b, h := wdDefBudgetNs, wdDefHeap
	if p.BudgetS > 0 {
		b = int64(p.BudgetS * 1e9 * budgetScale)
	}
	if p.HeapMB > 0 {
		h = int64(p.HeapMB) << 20
	}
	atomic.StoreInt64(&wdBudgetNs, b)
	atomic.StoreInt64(&wdHeap, h)
}

func startWatchdog(x *Ctx, budget time.Duration, heapLimit uint64) {
	samples := []metrics.Sample{{Name: "/memory/classes/heap/objects:bytes"}}
	wdDefBudgetNs, wdDefHeap = int64(budget), int64(heapLimit)
	if atomic.LoadInt64(&wdBudgetNs) == 0 {
		atomic.StoreInt64(&wdBudgetNs, wdDefBudgetNs)
		atomic.StoreInt64(&wdHeap, wdDefHeap)
	}
	go func() {
		var last uint64
		var since time.Time
		for {
			t0 := time.Now()
			time.Sleep(100 * time.Millisecond)
			if time.Since(t0) > 2*time.Second {
				// this goroutine itself was not scheduled for seconds: the whole process (or machine) was stalled, which
				// says nothing about the unit under test — restart its clock
				since = time.Now()
			}
			s := atomic.LoadUint64(&wdSeq)
			if s == 0 {
				last = 0
				continue
			}
			s = s<<24 + atomic.LoadUint64(&wdBeat)
			if s != last {
				last, since = s, time.Now()
			}
			metrics.Read(samples)
			heap := samples[0].Value.Uint64()
			reason := ""
			if heap > uint64(atomic.LoadInt64(&wdHeap)) {
				reason = "mem"
			} else if time.Since(since) > time.Duration(atomic.LoadInt64(&wdBudgetNs)) {
				reason = "hang"
			}
			if reason != "" {
				buf := make([]byte, 1<<16)
				n := runtime.Stack(buf, true)
				os.Stderr.Write(buf[:n])
				x.emitLine(map[string]any{"t": "X", "reason": reason, "heap": heap, "stuck": stuckFunction(string(buf[:n]))})
				os.Exit(3)
			}
		}
	}()
}

func openSlot(path string) []byte {
	f, err := os.OpenFile(path, os.O_RDWR|os.O_CREATE, 0o644)
	if err != nil {
		fatalf("slot: %v", err)
	}
	f.Truncate(64)
	b, err := syscall.Mmap(int(f.Fd()), 0, 64, syscall.PROT_READ|syscall.PROT_WRITE, syscall.MAP_SHARED)
	if err != nil {
		fatalf("mmap: %v", err)
	}
	return b
}

func fatalf(f string, a ...any) {
	fmt.Fprintf(os.Stderr, "worker: "+f+"\n", a...)
	os.Exit(2)
}

func limits() {
	debug.SetMaxStack(256 << 20)
	debug.SetGCPercent(200)
	var rl syscall.Rlimit
	rl.Cur, rl.Max = 6<<30, 6<<30
	syscall.Setrlimit(syscall.RLIMIT_AS, &rl)
}

package main

import (
	"fmt"
	"strings"
	"sync/atomic"

	"github.com/nulab/autog"
	"github.com/nulab/autog/graph"
	"github.com/nulab/autog/internal/verifrt"
)

// C07, option dimension: explicit-state search over SEQUENCES OF OPTIONS. The other C07 passes fix one option list per
// configuration; a Layout call is a function of its option list too — options given twice, size maps merged or replaced,
// later options overriding earlier ones. Every sequence of <= 3 options from the alphabet below is executed on a few
// graphs; the oracle is C07's own: (i) every value the caller passed (edge slice, each size map) is unchanged after the
// call, (ii) the same call made again — after a different call in between — returns the same layout, (iii) the
// uninstrumented build in a fresh process returns it too (validation slice).

type optOp struct {
	name string
	mk   func(env *optEnv) autog.Option
}

type optEnv struct {
	maps   []map[string]graph.Size
	copies []map[string]graph.Size
}

func (env *optEnv) sizeMap(m map[string]graph.Size) map[string]graph.Size {
	cp := make(map[string]graph.Size, len(m))
	for k, v := range m {
		cp[k] = v
	}
	env.maps = append(env.maps, m)
	env.copies = append(env.copies, cp)
	return m
}

func (env *optEnv) mutated() string {
	for i, m := range env.maps {
		cp := env.copies[i]
		if len(m) != len(cp) {
			return fmt.Sprintf("size map #%d passed by the caller had %d entries before the call and has %d after it: %v", i, len(cp), len(m), m)
		}
		for k, v := range cp {
			if m[k] != v {
				return fmt.Sprintf("size map #%d passed by the caller: entry %q was %v before the call and is %v after it", i, k, v, m[k])
			}
		}
	}
	return ""
}

var optAlphabet = []optOp{
	{"WithNodeSize({n0:30x6, n2:6x12})", func(env *optEnv) autog.Option {
		return autog.WithNodeSize(env.sizeMap(map[string]graph.Size{"n0": {W: 30, H: 6}, "n2": {W: 6, H: 12}}))
	}},
	{"WithNodeSize({n1:18x10, n2:22x4, n3:2x2})", func(env *optEnv) autog.Option {
		return autog.WithNodeSize(env.sizeMap(map[string]graph.Size{"n1": {W: 18, H: 10}, "n2": {W: 22, H: 4}, "n3": {W: 2, H: 2}}))
	}},
	{"WithNodeFixedSize(10, 6)", func(*optEnv) autog.Option { return autog.WithNodeFixedSize(10, 6) }},
	{"WithNodeSpacing(0)", func(*optEnv) autog.Option { return autog.WithNodeSpacing(0) }},
	{"WithNodeSpacing(4)", func(*optEnv) autog.Option { return autog.WithNodeSpacing(4) }},
	{"WithLayerSpacing(0)", func(*optEnv) autog.Option { return autog.WithLayerSpacing(0) }},
	{"WithLayerSpacing(8)", func(*optEnv) autog.Option { return autog.WithLayerSpacing(8) }},
	{"WithPositioning(VAlign)", func(*optEnv) autog.Option { return autog.WithPositioning(autog.PositioningVAlign) }},
	{"WithPositioning(NetworkSimplex)", func(*optEnv) autog.Option { return autog.WithPositioning(autog.PositioningNetworkSimplex) }},
	{"WithPositioning(BrandesKoepf)", func(*optEnv) autog.Option { return autog.WithPositioning(autog.PositioningBrandesKoepf) }},
	{"WithEdgeRouting(Ortho)", func(*optEnv) autog.Option { return autog.WithEdgeRouting(autog.EdgeRoutingOrtho) }},
	{"WithEdgeRouting(Polyline)", func(*optEnv) autog.Option { return autog.WithEdgeRouting(autog.EdgeRoutingPolyline) }},
	{"WithOutputVirtualNodes(true)", func(*optEnv) autog.Option { return autog.WithOutputVirtualNodes(true) }},
	{"WithCycleBreaking(DepthFirst)", func(*optEnv) autog.Option { return autog.WithCycleBreaking(autog.CycleBreakingDepthFirst) }},
	{"WithLayering(LongestPath)", func(*optEnv) autog.Option { return autog.WithLayering(autog.LayeringLongestPath) }},
	{"WithNetworkSimplexThoroughness(1)", func(*optEnv) autog.Option { return autog.WithNetworkSimplexThoroughness(1) }},
	{"WithBrandesKoepfLayout(2)", func(*optEnv) autog.Option { return autog.WithBrandesKoepfLayout(2) }},
}

var optGraphs = [][]int{
	{0, 1, 1, 2, 0, 2, 2, 3, 3, 1},       // cycle + long edge
	{0, 1, 0, 2, 1, 3, 2, 3, 0, 3, 4, 4}, // diamond with a long edge, and a self-looped single node as second component
	{0, 1, 2, 1, 2, 3, 3, 0, 0, 2},       // cyclic, antiparallel-free, 4 nodes
}

func optDescribe(seq []int) string {
	var names []string
	for _, k := range seq {
		names = append(names, optAlphabet[k].name)
	}
	return "[" + strings.Join(names, ", ") + "]"
}

// optCall performs Layout(graph g, options seq) once and reports what the caller can observe.
func optCall(x *Ctx, g int, seq []int) (ser []byte, mutated string) {
	atomic.AddUint64(&wdBeat, 1)
	x.st.Evaluations++
	x.st.PassEvals[x.pass.Name]++
	edges := Input{E: optGraphs[g]}.Edges()
	edgesCopy := make([][]string, len(edges))
	for i, e := range edges {
		edgesCopy[i] = append([]string(nil), e...)
	}
	env := &optEnv{}
	var opts []autog.Option
	for _, k := range seq {
		opts = append(opts, optAlphabet[k].mk(env))
	}
	verifrt.Reset(nil)
	func() {
		defer func() {
			if e := recover(); e != nil {
				ser = []byte("PANIC " + msgClass(fmt.Sprint(e)))
			}
		}()
		ser = serLayout(autog.Layout(graph.EdgeSlice(edges), opts...))
	}()
	for i, e := range edges {
		if len(e) != len(edgesCopy[i]) || e[0] != edgesCopy[i][0] || e[1] != edgesCopy[i][1] {
			return ser, fmt.Sprintf("edge #%d of the caller's edge slice was %v before the call and is %v after it", i, edgesCopy[i], e)
		}
	}
	return ser, env.mutated()
}

// input encoding: E[0] = graph index, E[1:] = the option sequence
func evalC07Options(x *Ctx, in Input) {
	if !x.Unit(nil) {
		return
	}
	g, seq := in.E[0], in.E[1:]
	r1, mut := optCall(x, g, seq)
	if mut != "" {
		x.Violate("C07:input-mutated", nil, map[string]any{"options": optDescribe(seq)}, fmt.Sprintf("Layout(graph %v, options %s) changed a value the caller passed: %s", optGraphs[g], optDescribe(seq), mut))
	}
	if strings.HasPrefix(string(r1), "PANIC") {
		x.Blocked(&Res{Panic: strings.TrimPrefix(string(r1), "PANIC "), PanicFn: "Layout"})
		return
	}
	// a different call in between: another graph, the sequence rotated by one with its first option replaced
	other := append([]int(nil), seq...)
	if len(other) > 0 {
		other = append(other[1:], (other[0]+1)%len(optAlphabet))
	}
	optCall(x, (g+1)%len(optGraphs), other)
	r3, _ := optCall(x, g, seq)
	if string(r1) != string(r3) {
		x.Violate("C07:repeat-differs", nil, map[string]any{"options": optDescribe(seq)}, fmt.Sprintf("Layout(graph %v, options %s) returned a different layout when the same call was made again after Layout(graph %v, options %s)", optGraphs[g], optDescribe(seq), optGraphs[(g+1)%len(optGraphs)], optDescribe(other)))
	}
	x.Validate(r1)
	if len(seq) >= 2 {
		x.Nontrivial(r1)
	}
	x.Sample(map[string]any{"graph": optGraphs[g], "options": optDescribe(seq)})
}

func optSequences(depth int) func(emit func(Input)) {
	return func(emit func(Input)) {
		for d := 0; d <= depth; d++ {
			seq := make([]int, d)
			var rec func(i int)
			rec = func(i int) {
				if i == d {
					for g := range optGraphs {
						emit(Input{E: append([]int{g}, seq...)})
					}
					return
				}
				for k := range optAlphabet {
					seq[i] = k
					rec(i + 1)
				}
			}
			rec(0)
		}
	}
}

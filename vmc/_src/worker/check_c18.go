package main

import (
	"fmt"
	"strings"

	"github.com/nulab/autog"
	"github.com/nulab/autog/graph"
	imonitor "github.com/nulab/autog/internal/monitor"
	"github.com/nulab/autog/internal/verifrt"
)

// C18 — E3: search over histories of Layout calls. The alphabet:
//   shape (4 graphs, or the empty graph, or a malformed edge)  x  monitor {none, recording, panicking on its j-th event}
// Every history starts from the initial global state (generated VerifRestore); the state reached is identified by the
// generated snapshot of every package-level variable of the module.

var c18Shapes = [][]int{
	{0, 1},
	{0, 1, 1, 2, 0, 2},       // long edge: helper node
	{0, 0, 1, 2},             // self-loop and two components
	{0, 1, 1, 0, 1, 2, 2, 0}, // cycles
}

const (
	c18Empty     = 4
	c18Malformed = 5
)

// monitor kinds: 0 none, 1 recording, 2.. panics on event number (kind-1)
var c18MonKinds = []int{0, 1, 2, 3, 5}

type c18Op struct{ Shape, Mon int }

func c18Alphabet() []c18Op {
	var ops []c18Op
	for s := range c18Shapes {
		for _, m := range c18MonKinds {
			ops = append(ops, c18Op{s, m})
		}
	}
	for _, s := range []int{c18Empty, c18Malformed} {
		ops = append(ops, c18Op{s, 0}, c18Op{s, 1})
	}
	return ops
}

type c18Call struct {
	op     c18Op
	res    string // serialised layout or "PANIC <message class>"
	events int    // events received while active
	stray  []string
}

var c18Active = -1

func c18Source(shape int) graph.Source {
	switch shape {
	case c18Empty:
		return graph.EdgeSlice{}
	case c18Malformed:
		return graph.EdgeSlice{{"a"}}
	}
	return graph.EdgeSlice(Input{E: c18Shapes[shape]}.Edges())
}

// c18Run performs the history in this process, starting from the initial global state.
func c18Run(x *Ctx, ops []c18Op) []*c18Call {
	globalRestore()
	calls := make([]*c18Call, len(ops))
	for i, op := range ops {
		i, op := i, op
		call := &c18Call{op: op}
		calls[i] = call
		opts := []autog.Option{autog.WithNodeFixedSize(fixW, fixH), autog.WithNodeSpacing(4), autog.WithLayerSpacing(8)}
		if op.Mon > 0 {
			opts = append(opts, autog.WithMonitor(imonitor.NewFunc(func(phase int, alg, key string, val any) {
				if c18Active != i {
					call.stray = append(call.stray, fmt.Sprintf("monitor of call #%d received event (phase %d, %q) while call #%d was running", i, phase, key, c18Active))
					return
				}
				call.events++
				if op.Mon > 1 && call.events == op.Mon-1 {
					panic("verif: monitor panics")
				}
			})))
		}
		func() {
			defer func() {
				c18Active = -1
				if e := recover(); e != nil {
					call.res = "PANIC " + msgClass(fmt.Sprint(e))
				}
			}()
			verifrt.Reset(nil)
			x.st.Evaluations++
			x.st.PassEvals[x.pass.Name]++
			src := c18Source(op.Shape)
			c18Active = i
			l := autog.Layout(src, opts...)
			call.res = string(serLayout(l))
		}()
	}
	return calls
}

var c18Ref map[int]string

func c18Reference(x *Ctx) {
	if c18Ref != nil {
		return
	}
	c18Ref = map[int]string{}
	for s := range c18Shapes {
		c := c18Run(x, []c18Op{{s, 0}})
		c18Ref[s] = c[0].res
	}
	c18Ref[c18Empty] = c18Run(x, []c18Op{{c18Empty, 0}})[0].res
	c18Ref[c18Malformed] = c18Run(x, []c18Op{{c18Malformed, 0}})[0].res
}

func c18Decode(in Input) []c18Op {
	alpha := c18Alphabet()
	ops := make([]c18Op, len(in.E))
	for i, k := range in.E {
		ops[i] = alpha[k]
	}
	return ops
}

func c18Describe(ops []c18Op) string {
	var sb strings.Builder
	for i, op := range ops {
		shape := "empty graph"
		switch {
		case op.Shape < len(c18Shapes):
			shape = fmt.Sprint(c18Shapes[op.Shape])
		case op.Shape == c18Malformed:
			shape = "malformed edge"
		}
		mon := "no monitor"
		if op.Mon == 1 {
			mon = "recording monitor"
		} else if op.Mon > 1 {
			mon = fmt.Sprintf("monitor that panics on its event #%d", op.Mon-1)
		}
		fmt.Fprintf(&sb, "  call #%d: Layout(%s) with %s\n", i, shape, mon)
	}
	return sb.String()
}

func evalC18(x *Ctx, in Input) {
	if !x.Unit(nil) {
		return
	}
	c18Reference(x)
	ops := c18Decode(in)
	calls := c18Run(x, ops)
	var obs strings.Builder
	for i, c := range calls {
		obs.WriteString(c.res)
		obs.WriteByte('|')
		for _, s := range c.stray {
			x.Violate("C18:event-outside-own-call", nil, nil, s+"\nhistory:\n"+c18Describe(ops))
		}
		want := c18Ref[c.op.Shape]
		if c.op.Mon > 1 && c.events >= c.op.Mon-1 {
			want = "PANIC verif: monitor panics"
		}
		if c.res != want {
			x.Violate("C18:result-changed", nil, nil, fmt.Sprintf("call #%d returned something else than the same call without monitor from the initial state:\n  got  %s\n  want %s\nhistory:\n%s", i, clipStr(c.res, 200), clipStr(want, 200), c18Describe(ops)))
		}
		if c.op.Mon == 1 && c.op.Shape < len(c18Shapes) && c.events == 0 {
			x.Violate("C18:monitor-silent", nil, nil, fmt.Sprintf("the recording monitor of call #%d received no event at all\nhistory:\n%s", i, c18Describe(ops)))
		}
		x.Hist("events-per-monitored-call", c.events)
	}
	snap := globalSnapshot()
	x.Hist("global-state-after-history", snap)
	x.Validate([]byte(obs.String()))
	if len(ops) >= 2 {
		x.Nontrivial([]byte(obs.String() + snap))
	}
	x.Sample(map[string]any{"history": c18Describe(ops)})
}

func clipStr(s string, n int) string {
	s = fmt.Sprintf("%q", s)
	if len(s) > n {
		return s[:n] + "…"
	}
	return s
}

// c18Histories enumerates every operation sequence of length 1..depth.
func c18Histories(depth int) func(emit func(Input)) {
	na := len(c18Alphabet())
	return func(emit func(Input)) {
		for d := 1; d <= depth; d++ {
			h := make([]int, d)
			var rec func(i int)
			rec = func(i int) {
				if i == d {
					emit(Input{E: append([]int(nil), h...)})
					return
				}
				for k := 0; k < na; k++ {
					h[i] = k
					rec(i + 1)
				}
			}
			rec(0)
		}
	}
}

// c18Closure is the explicit-state search proper: breadth-first over global snapshots; every (reachable state, op)
// pair is executed by replaying the shortest history that reaches the state. If the frontier empties, every history
// of ANY length only visits states whose every operation has been checked.
func c18Closure(x *Ctx, in Input) {
	if !x.Unit(nil) {
		return
	}
	c18Reference(x)
	alpha := c18Alphabet()
	globalRestore()
	init := globalSnapshot()
	seen := map[string][]int{init: {}}
	frontier := []string{init}
	trans := 0
	for depth := 0; len(frontier) > 0 && depth < 6; depth++ {
		var next []string
		for _, s := range frontier {
			for k := range alpha {
				h := append(append([]int(nil), seen[s]...), k)
				x.curInput = Input{E: h}
				ops := c18Decode(Input{E: h})
				calls := c18Run(x, ops)
				trans++
				last := calls[len(calls)-1]
				for _, c := range calls {
					for _, st := range c.stray {
						x.Violate("C18:event-outside-own-call", nil, nil, st+"\nhistory:\n"+c18Describe(ops))
					}
				}
				want := c18Ref[last.op.Shape]
				if last.op.Mon > 1 && last.events >= last.op.Mon-1 {
					want = "PANIC verif: monitor panics"
				}
				if last.res != want {
					x.Violate("C18:result-changed", nil, nil, fmt.Sprintf("from global state %q, call #%d returned something else than from the initial state\nhistory:\n%s", s, len(calls)-1, c18Describe(ops)))
				}
				ns := globalSnapshot()
				if _, ok := seen[ns]; !ok {
					seen[ns] = h
					next = append(next, ns)
				}
			}
		}
		frontier = next
	}
	x.st.Transitions += int64(trans)
	x.Hist("closure-distinct-global-states", len(seen))
	x.Hist("closure-frontier-empty", len(frontier) == 0)
	if len(frontier) != 0 {
		x.st.Notes = append(x.st.Notes, "C18 closure: frontier not empty at depth 6 (state space not closed)")
	}
	x.Nontrivial([]byte(fmt.Sprint(len(seen), trans)))
}

func init() {
	checks["C18"] = func(tier string) []*Pass {
		d := tierPick(tier, 3, 4)
		return []*Pass{
			{Name: "closure", Space: spaceList([]Input{{E: []int{}}}), Eval: c18Closure,
				Bound: "breadth-first search over global states (snapshot of every package-level variable): every (reachable state, operation) pair executed, until no new state appears"},
			{Name: "histories", Space: c18Histories(d), Eval: evalC18,
				Bound: fmt.Sprintf("every sequence of <=%d Layout calls over the alphabet {4 graphs, empty graph, malformed edge} x {no monitor, recording monitor, monitor panicking on its 1st/2nd/4th event} (%d operations), no pruning", d, len(c18Alphabet()))},
		}
	}
}

package main

var stdAssume = []string{
	"Go toolchain, runtime and standard library are correct",
	"the instrumenter's rewriting of map ranges preserves semantics apart from iteration order (bound to the real program by the conformance pass against the uninstrumented build)",
	"sizes and spacings come from the stated finite alphabets of small integers / dyadic rationals; nothing is claimed for other values",
	"inputs beyond the stated depth bounds are not covered",
}

func init() {
	std := func(rule string) propSpec {
		return propSpec{Mode: "mapctl", Validate: true, Rule: rule, Assume: stdAssume, BudgetS: 20, QuickDeadS: 420, ThorDeadS: 3000}
	}
	props["C01"] = std("cases = canonical AddEdge histories (restricted-growth edge lists) x configuration grid, each enumerated exactly once; every case is non-trivial for C01 (Layout must return); distinct_observations counts distinct returned layouts")
	props["C02"] = std("non-trivial = input with >= 2 edges; cases are distinct by construction (canonical enumeration x configuration)")
	props["C03"] = std("non-trivial = input with >= 2 non-self-loop edges (some band structure exists)")
}

func init() {
	std := func(rule string) propSpec {
		return propSpec{Mode: "mapctl", Validate: true, Rule: rule, Assume: stdAssume, BudgetS: 20, QuickDeadS: 420, ThorDeadS: 3000}
	}
	props["C04"] = std("non-trivial = input with >= 3 nodes (some pair of nodes can collide); every (input, width assignment, configuration) is a distinct case")
	props["C05"] = std("non-trivial = execution in which >= 2 routed non-self-loop edges were judged")
	props["C06"] = std("non-trivial = execution whose drawing contains at least one edge spanning >= 2 bands (a long edge)")
	props["C10"] = std("non-trivial = execution in which the simplex pivoted at least once, or input with >= 3 non-self-loop edges")
	props["C11"] = std("non-trivial = input with >= 2 non-self-loop edges")
	props["C12"] = std("non-trivial = drawing with at least one crossing, or input with >= 4 edges")
	props["C13"] = std("non-trivial = tree with >= 4 nodes")
	props["C14"] = std("non-trivial = execution with at least one reversed edge, or acyclic input with >= 3 edges")
	props["C16"] = std("non-trivial = input with >= 3 nodes")
}

func init() {
	p := propSpec{Mode: "mapctl", Validate: true, Assume: stdAssume, BudgetS: 20, QuickDeadS: 420, ThorDeadS: 3000,
		Rule: "states = choice-point prefixes explored (one per execution); non-trivial = default execution that reaches at least one map range with >= 2 keys; transitions additionally count every alternative taken"}
	props["C07"] = p
}

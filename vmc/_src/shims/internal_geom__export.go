package geom

// export shims for the verification worker (added through the build overlay, never committed to the repository)

func VerifSolve3(coeff []float64) []float64 { return solve3(coeff) }

const VerifEpsilon3 = epsilon3

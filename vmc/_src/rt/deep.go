package verifrt

import (
	"fmt"
	"reflect"
	"sort"
	"strings"
)

// Deep renders everything that is reachable from a package-level variable (pass its address): pointers are followed
// (each object once), slices are rendered up to their CAPACITY (a call that appends to a package-level slice with
// spare capacity writes memory that another call can see, although the slice header — and "%+v" — does not change),
// maps in sorted key order, functions and channels as nil / non-nil only. Used as the global state in the state keys
// of the interleaving and call-history explorers.
func Deep(ptrs ...any) string {
	var sb strings.Builder
	seen := map[uintptr]int{}
	for _, p := range ptrs {
		deep(&sb, reflect.ValueOf(p).Elem(), seen, 0)
		sb.WriteByte('|')
	}
	return sb.String()
}

func deep(sb *strings.Builder, v reflect.Value, seen map[uintptr]int, depth int) {
	if depth > 12 {
		sb.WriteString("…")
		return
	}
	switch v.Kind() {
	case reflect.Invalid:
		sb.WriteString("<nil>")
	case reflect.Bool:
		fmt.Fprint(sb, v.Bool())
	case reflect.Int, reflect.Int8, reflect.Int16, reflect.Int32, reflect.Int64:
		fmt.Fprint(sb, v.Int())
	case reflect.Uint, reflect.Uint8, reflect.Uint16, reflect.Uint32, reflect.Uint64, reflect.Uintptr:
		fmt.Fprint(sb, v.Uint())
	case reflect.Float32, reflect.Float64:
		fmt.Fprint(sb, v.Float())
	case reflect.Complex64, reflect.Complex128:
		fmt.Fprint(sb, v.Complex())
	case reflect.String:
		fmt.Fprintf(sb, "%q", v.String())
	case reflect.Func, reflect.Chan, reflect.UnsafePointer:
		if v.IsNil() {
			sb.WriteString("nil")
		} else {
			sb.WriteString(v.Kind().String())
		}
	case reflect.Pointer:
		if v.IsNil() {
			sb.WriteString("nil")
			return
		}
		if id, ok := seen[v.Pointer()]; ok {
			fmt.Fprintf(sb, "&#%d", id)
			return
		}
		seen[v.Pointer()] = len(seen)
		sb.WriteByte('&')
		deep(sb, v.Elem(), seen, depth+1)
	case reflect.Interface:
		if v.IsNil() {
			sb.WriteString("nil")
			return
		}
		sb.WriteString(v.Elem().Type().String())
		sb.WriteByte(':')
		deep(sb, v.Elem(), seen, depth+1)
	case reflect.Slice:
		if v.IsNil() {
			sb.WriteString("nil")
			return
		}
		fmt.Fprintf(sb, "[len %d cap %d:", v.Len(), v.Cap())
		full := v.Slice(0, v.Cap())
		for i := 0; i < full.Len() && i < 4096; i++ {
			if i > 0 {
				sb.WriteByte(' ')
			}
			deep(sb, full.Index(i), seen, depth+1)
		}
		sb.WriteByte(']')
	case reflect.Array:
		sb.WriteByte('[')
		for i := 0; i < v.Len() && i < 4096; i++ {
			if i > 0 {
				sb.WriteByte(' ')
			}
			deep(sb, v.Index(i), seen, depth+1)
		}
		sb.WriteByte(']')
	case reflect.Map:
		if v.IsNil() {
			sb.WriteString("nil")
			return
		}
		type kv struct{ k, v string }
		var kvs []kv
		it := v.MapRange()
		for it.Next() {
			var kb, vb strings.Builder
			deep(&kb, it.Key(), seen, depth+1)
			deep(&vb, it.Value(), seen, depth+1)
			kvs = append(kvs, kv{kb.String(), vb.String()})
		}
		sort.Slice(kvs, func(i, j int) bool { return kvs[i].k < kvs[j].k })
		sb.WriteString("map[")
		for i, e := range kvs {
			if i > 0 {
				sb.WriteByte(' ')
			}
			sb.WriteString(e.k + ":" + e.v)
		}
		sb.WriteByte(']')
	case reflect.Struct:
		sb.WriteByte('{')
		for i := 0; i < v.NumField(); i++ {
			if i > 0 {
				sb.WriteByte(' ')
			}
			sb.WriteString(v.Type().Field(i).Name + ":")
			deep(sb, v.Field(i), seen, depth+1)
		}
		sb.WriteByte('}')
	default:
		sb.WriteString(v.Kind().String())
	}
}

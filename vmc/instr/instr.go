// Package instr is the type-aware source instrumenter of the autog model-checking harness.
//
// It re-reads the repository under test on every invocation (nothing is a stored copy of a
// repository file), type-checks it with go/types and writes a `go build -overlay` file that
//   - adds the harness runtime as internal/verifrt and the worker as verifx/worker (virtual packages),
//   - adds export shims and a generated VerifSnapshot() per package that owns package-level variables,
//   - mode mapctl: turns every range-over-map into an explorer choice point (verifrt.MapKeys) and numbers
//     map keys at insertion (verifrt.Touch) so that the default order is the deterministic insertion order,
//   - mode sched: mapctl + verifrt.Access(<pkg.var>, R|W) before every statement that mentions a
//     package-level variable of a module package (scheduling points of the cooperative scheduler).
package instr

import (
	"bytes"
	"encoding/json"
	"fmt"
	"go/ast"
	"go/format"
	"go/importer"
	"go/parser"
	"go/token"
	"go/types"
	"os"
	"os/exec"
	"path/filepath"
	"sort"
	"strings"
)

const modPath = "github.com/nulab/autog"
const rtPath = modPath + "/internal/verifrt"

type pkg struct {
	Dir        string
	ImportPath string
	Name       string
	GoFiles    []string
}

// GlobalVar describes one package-level variable of the module (the "static enumeration" half of C15).
type GlobalVar struct {
	Pkg    string   `json:"pkg"`
	Name   string   `json:"name"`
	Type   string   `json:"type"`
	Reads  []string `json:"reads"`
	Writes []string `json:"writes"`
}

type Info struct {
	Mode              string      `json:"mode"`
	RewrittenFiles    int         `json:"rewritten_files"`
	MapRangeSites     []string    `json:"map_range_sites"`
	UncontrolledSites []string    `json:"uncontrolled_sites"`
	TouchSites        int         `json:"touch_sites"`
	AccessSites       int         `json:"access_sites"`
	Globals           []GlobalVar `json:"globals"`
	Overlay           string      `json:"overlay"`
}

type importerFunc func(string) (*types.Package, error)

func (f importerFunc) Import(p string) (*types.Package, error) { return f(p) }

func goEnv() []string {
	env := os.Environ()
	env = append(env, "GOFLAGS=-mod=mod", "GOPROXY=off", "GOSUMDB=off", "GOTOOLCHAIN=local")
	return env
}

// Generate writes the overlay for the given mode into outDir and returns its description.
// srcDir is /verif/vmc/_src (rt, worker, shims).
func Generate(repo, mode, outDir, srcDir string) (*Info, error) {
	info := &Info{Mode: mode}
	if err := os.MkdirAll(outDir, 0o755); err != nil {
		return nil, err
	}
	// clean old generated files
	if old, _ := filepath.Glob(filepath.Join(outDir, "*.go")); old != nil {
		for _, f := range old {
			os.Remove(f)
		}
	}
	cmd := exec.Command("go", "list", "-tags", "verif", "-json=Dir,ImportPath,Name,GoFiles", "./...")
	cmd.Dir = repo
	cmd.Env = goEnv()
	var stderr bytes.Buffer
	cmd.Stderr = &stderr
	out, err := cmd.Output()
	if err != nil {
		return nil, fmt.Errorf("go list: %v: %s", err, stderr.String())
	}
	dec := json.NewDecoder(bytes.NewReader(out))
	pkgs := map[string]*pkg{}
	var order []string
	for dec.More() {
		var p pkg
		if err := dec.Decode(&p); err != nil {
			return nil, err
		}
		pp := p
		pkgs[p.ImportPath] = &pp
		order = append(order, p.ImportPath)
	}
	fset := token.NewFileSet()
	std := importer.ForCompiler(fset, "source", nil)
	done := map[string]*types.Package{}
	infos := map[string]*types.Info{}
	files := map[string][]*ast.File{}
	var check func(path string) (*types.Package, error)
	check = func(path string) (*types.Package, error) {
		if p, ok := done[path]; ok {
			return p, nil
		}
		pk, ok := pkgs[path]
		if !ok {
			return std.Import(path)
		}
		var fs []*ast.File
		for _, f := range pk.GoFiles {
			af, err := parser.ParseFile(fset, filepath.Join(pk.Dir, f), nil, parser.ParseComments)
			if err != nil {
				return nil, err
			}
			fs = append(fs, af)
		}
		ti := &types.Info{Types: map[ast.Expr]types.TypeAndValue{}, Uses: map[*ast.Ident]types.Object{}, Defs: map[*ast.Ident]types.Object{}}
		conf := types.Config{Importer: importerFunc(check)}
		tp, err := conf.Check(path, fset, fs, ti)
		if err != nil {
			return nil, err
		}
		done[path], infos[path], files[path] = tp, ti, fs
		return tp, nil
	}
	for _, p := range order {
		if _, err := check(p); err != nil {
			return nil, fmt.Errorf("type-check %s: %v", p, err)
		}
	}

	overlay := map[string]string{}
	nfile := 0
	emit := func(target string, content []byte) error {
		nfile++
		op := filepath.Join(outDir, fmt.Sprintf("g%03d_%s", nfile, filepath.Base(target)))
		if err := os.WriteFile(op, content, 0o644); err != nil {
			return err
		}
		overlay[target] = op
		return nil
	}

	// ---- package-level variables: enumeration + snapshot functions
	globals := map[string]*GlobalVar{}
	var snapPkgs []*pkg
	for _, ip := range order {
		pk := pkgs[ip]
		if pk.Name == "main" || strings.Contains(ip, "/testfiles") {
			continue
		}
		tp := done[ip]
		var names, syncNames []string
		for _, name := range tp.Scope().Names() {
			if v, ok := tp.Scope().Lookup(name).(*types.Var); ok {
				if name == "_" || strings.HasPrefix(name, "Verif") {
					continue
				}
				globals[tp.Name()+"."+name] = &GlobalVar{Pkg: ip, Name: name, Type: v.Type().String()}
				if isSyncType(v.Type()) {
					// synchronisation objects (sync.Pool, sync.Mutex, sync.Once, atomics) are not data: they are not rendered in
					// the snapshot (their internals change legitimately). They ARE put back by the restore, together with the
					// data — otherwise a restored (empty) lazily built table would sit next to a sync.Once that is already done.
					syncNames = append(syncNames, name)
					continue
				}
				names = append(names, name)
			}
		}
		if len(names)+len(syncNames) == 0 {
			continue
		}
		snapPkgs = append(snapPkgs, pk)
		var b bytes.Buffer
		fmt.Fprintf(&b, "package %s\n\nimport verifDeep \"github.com/nulab/autog/internal/verifrt\"\n\n", pk.Name)
		fmt.Fprintf(&b, "// VerifSnapshot renders everything reachable from the package-level variables of this package: pointers followed,\n// slices up to their capacity (generated by vmc/instr).\n")
		fmt.Fprintf(&b, "func VerifSnapshot() string {\n\treturn verifDeep.Deep(")
		for i, n := range names {
			if i > 0 {
				fmt.Fprintf(&b, ", ")
			}
			fmt.Fprintf(&b, "&%s", n)
		}
		fmt.Fprintf(&b, ")\n}\n\n")
		for _, n := range append(append([]string(nil), names...), syncNames...) {
			fmt.Fprintf(&b, "var verifSaved_%s = %s\n", n, n)
		}
		fmt.Fprintf(&b, "\n// VerifRestore puts every package-level variable back to its value at program start (shallow).\nfunc VerifRestore() {\n")
		for _, n := range append(append([]string(nil), names...), syncNames...) {
			fmt.Fprintf(&b, "\t%s = verifSaved_%s\n", n, n)
		}
		fmt.Fprintf(&b, "}\n")
		if err := emit(filepath.Join(pk.Dir, "verif_snapshot_gen.go"), b.Bytes()); err != nil {
			return nil, err
		}
	}

	// ---- rewriting
	for _, ip := range order {
		ti := infos[ip]
		pk := pkgs[ip]
		if pk.Name == "main" {
			continue
		}
		for _, f := range files[ip] {
			changed := false
			fname := fset.Position(f.Pos()).Filename
			rel := strings.TrimPrefix(fname, repo+"/")
			isMap := func(e ast.Expr) bool {
				t := ti.TypeOf(e)
				if t == nil {
					return false
				}
				_, ok := t.Underlying().(*types.Map)
				return ok
			}
			pkgVar := func(id *ast.Ident) *types.Var {
				v, ok := ti.Uses[id].(*types.Var)
				if !ok || v.IsField() || v.Pkg() == nil || v.Parent() != v.Pkg().Scope() {
					return nil
				}
				if _, mine := pkgs[v.Pkg().Path()]; !mine {
					return nil
				}
				if strings.HasPrefix(v.Name(), "Verif") {
					return nil
				}
				return v
			}
			funcName := ""

			// static access table (all modes; cheap) + Access() insertion (sched)
			headerAccess := func(s ast.Stmt) map[string]bool { return nil }
			var syncCalls []string // calls of methods of sync objects rooted at package-level variables, found by the last hdr()
			var hdr func(s ast.Stmt) map[string]bool
			hdr = func(s ast.Stmt) map[string]bool {
				acc := map[string]bool{}
				writes := map[*ast.Ident]bool{}
				syncIdents := map[*ast.Ident]bool{}
				var exprs []ast.Node
				add := func(n ast.Node) {
					if n != nil && !isNilNode(n) {
						exprs = append(exprs, n)
					}
				}
				switch st := s.(type) {
				case *ast.IfStmt:
					add(st.Init)
					add(st.Cond)
					if ei, ok := st.Else.(*ast.IfStmt); ok {
						for k, v := range hdr(ei) {
							acc[k] = acc[k] || v
						}
					}
				case *ast.ForStmt:
					add(st.Init)
					add(st.Cond)
					add(st.Post)
				case *ast.RangeStmt:
					add(st.X)
				case *ast.SwitchStmt:
					add(st.Init)
					add(st.Tag)
				case *ast.TypeSwitchStmt:
					add(st.Init)
					add(st.Assign)
				case *ast.BlockStmt, *ast.SelectStmt:
				case *ast.LabeledStmt:
					return hdr(st.Stmt)
				default:
					add(s)
				}
				for _, e := range exprs {
					ast.Inspect(e, func(n ast.Node) bool {
						switch x := n.(type) {
						case *ast.FuncLit:
							return false
						case *ast.AssignStmt:
							for _, l := range x.Lhs {
								if r := rootIdent(l); r != nil {
									writes[r] = true
								}
							}
						case *ast.IncDecStmt:
							if r := rootIdent(x.X); r != nil {
								writes[r] = true
							}
						case *ast.UnaryExpr:
							if x.Op == token.AND {
								if r := rootIdent(x.X); r != nil {
									writes[r] = true
								}
							}
						case *ast.CallExpr:
							if se, ok := x.Fun.(*ast.SelectorExpr); ok {
								if r := rootIdent(se.X); r != nil && pkgVar(r) != nil {
									if t := ti.TypeOf(se.X); t != nil && isSyncType(t) {
										// mu.Lock(), pool.Get(), state.mu.Unlock(), once.Do(f), counter.Add(1) ...
										syncCalls = append(syncCalls, pkgVar(r).Pkg().Name()+"."+types.ExprString(se.X)+"."+se.Sel.Name)
										syncIdents[r] = true
									}
								}
								if r := rootIdent(se.X); r != nil {
									if _, isPkgName := ti.Uses[r].(*types.PkgName); !isPkgName {
										// method call on a value rooted at a package-level variable:
										// a write unless the variable is an interface or pointer (then it is a read of the variable)
										if v := pkgVar(r); v != nil && r == se.X {
											switch v.Type().Underlying().(type) {
											case *types.Interface, *types.Pointer:
											default:
												writes[r] = true
											}
										}
									}
								}
							}
							if id, ok := x.Fun.(*ast.Ident); ok && (id.Name == "clear" || id.Name == "delete") && len(x.Args) > 0 {
								if r := rootIdent(x.Args[0]); r != nil {
									writes[r] = true
								}
							}
						}
						return true
					})
					ast.Inspect(e, func(n ast.Node) bool {
						if _, ok := n.(*ast.FuncLit); ok {
							return false
						}
						if id, ok := n.(*ast.Ident); ok {
							if v := pkgVar(id); v != nil && !syncIdents[id] {
								name := v.Pkg().Name() + "." + v.Name()
								if isSyncType(v.Type()) {
									// a synchronisation object (sync.Mutex, sync.Pool, atomic.Int64, ...): using it is a
									// scheduling point but not a data access
									name = "sync:" + name
								}
								acc[name] = acc[name] || writes[id]
							}
						}
						return true
					})
				}
				return acc
			}
			headerAccess = hdr
			mkAccess := func(acc map[string]bool) []ast.Stmt {
				var names []string
				for k := range acc {
					names = append(names, k)
				}
				sort.Strings(names)
				var res []ast.Stmt
				for _, k := range names {
					w := "0"
					if acc[k] {
						w = "1"
					}
					res = append(res, &ast.ExprStmt{X: &ast.CallExpr{Fun: sel("verifrt", "Access"),
						Args: []ast.Expr{&ast.BasicLit{Kind: token.STRING, Value: fmt.Sprintf("%q", k)}, &ast.BasicLit{Kind: token.INT, Value: w}}}})
				}
				return res
			}
			recordAccess := func(acc map[string]bool) {
				for k, w := range acc {
					g := globals[strings.TrimPrefix(k, "sync:")]
					if g == nil {
						continue
					}
					site := rel + ":" + funcName
					if w {
						if !contains(g.Writes, site) {
							g.Writes = append(g.Writes, site)
						}
					} else if !contains(g.Reads, site) {
						g.Reads = append(g.Reads, site)
					}
				}
			}

			tmpN := 0
			// list-level rewriting: Touch before map insertions, Access before global accesses
			var rewriteList func(list []ast.Stmt) []ast.Stmt
			rewriteList = func(list []ast.Stmt) []ast.Stmt {
				var res []ast.Stmt
				for _, s := range list {
					if mode != "plain" {
						touch := func(ix *ast.IndexExpr) {
							if hasCall(ix.Index) {
								tmpN++
								tmp := ast.NewIdent(fmt.Sprintf("verifT%d", tmpN))
								res = append(res, &ast.AssignStmt{Lhs: []ast.Expr{tmp}, Tok: token.DEFINE, Rhs: []ast.Expr{ix.Index}})
								ix.Index = tmp
							}
							res = append(res, &ast.ExprStmt{X: &ast.CallExpr{Fun: sel("verifrt", "Touch"), Args: []ast.Expr{ix.Index}}})
							info.TouchSites++
							changed = true
						}
						switch st := s.(type) {
						case *ast.AssignStmt:
							for _, l := range st.Lhs {
								if ix, ok := l.(*ast.IndexExpr); ok && isMap(ix.X) {
									touch(ix)
								}
							}
						case *ast.IncDecStmt:
							if ix, ok := st.X.(*ast.IndexExpr); ok && isMap(ix.X) {
								touch(ix)
							}
						}
					}
					syncCalls = nil
					acc := headerAccess(s)
					calls := syncCalls
					_, isDefer := s.(*ast.DeferStmt)
					mkSync := func(prefix string, deferred bool) []ast.Stmt {
						var out []ast.Stmt
						for _, c := range calls {
							call := &ast.CallExpr{Fun: sel("verifrt", "Access"),
								Args: []ast.Expr{&ast.BasicLit{Kind: token.STRING, Value: fmt.Sprintf("%q", prefix+c)}, &ast.BasicLit{Kind: token.INT, Value: "2"}}}
							if deferred {
								out = append(out, &ast.DeferStmt{Call: call})
							} else {
								out = append(out, &ast.ExprStmt{X: call})
							}
						}
						return out
					}
					if mode == "sched" && len(calls) > 0 {
						changed = true
						info.AccessSites += len(calls)
						if isDefer {
							// at function return the order must be: call point, the deferred call itself, return point (LIFO)
							res = append(res, mkSync("sync-ret:", true)...)
						} else {
							res = append(res, mkSync("sync:", false)...)
						}
					}
					if len(acc) > 0 {
						recordAccess(acc)
						if mode == "sched" {
							res = append(res, mkAccess(acc)...)
							info.AccessSites += len(acc)
							changed = true
							if fs, ok := s.(*ast.ForStmt); ok {
								fs.Body.List = append(mkAccess(acc), fs.Body.List...)
							}
							if _, ok := s.(*ast.DeferStmt); ok {
								// the deferred call touches the variable when it RUNS, at function return: register a scheduling
								// point that runs right after it (defers run last-in first-out, so it is registered first)
								for _, a := range mkAccess(acc) {
									res = append(res, &ast.DeferStmt{Call: a.(*ast.ExprStmt).X.(*ast.CallExpr)})
								}
							}
						}
					}
					res = append(res, s)
					if mode == "sched" && len(calls) > 0 {
						if isDefer {
							res = append(res, mkSync("sync:", true)...)
						} else {
							switch s.(type) {
							case *ast.ExprStmt, *ast.AssignStmt, *ast.IncDecStmt, *ast.DeclStmt:
								res = append(res, mkSync("sync-ret:", false)...)
							}
						}
					}
				}
				return res
			}
			for _, d := range f.Decls {
				fd, ok := d.(*ast.FuncDecl)
				if !ok || fd.Body == nil {
					continue
				}
				funcName = fd.Name.Name
				if mode == "sched" && ip == modPath && fd.Recv == nil && fd.Name.Name == "Layout" {
					// the entry point itself: a pure scheduling point (no data access) before every statement that is not nested
					// in a loop — calls may be interleaved at the granularity of Layout's own steps (options applied,
					// graph populated, sizes applied, components processed), not only where a package-level variable is
					// mentioned: state shared through memory that is merely REACHABLE from a package-level variable shows as a
					// result that differs from the solo result
					var yields func(list []ast.Stmt, depth int) []ast.Stmt
					var inner func(s ast.Stmt, depth int)
					yields = func(list []ast.Stmt, depth int) []ast.Stmt {
						var out []ast.Stmt
						for _, s := range list {
							if depth == 0 {
								out = append(out, &ast.ExprStmt{X: &ast.CallExpr{Fun: sel("verifrt", "Access"),
									Args: []ast.Expr{&ast.BasicLit{Kind: token.STRING, Value: `"yield:autog.Layout"`}, &ast.BasicLit{Kind: token.INT, Value: "3"}}}})
								info.AccessSites++
								changed = true
							}
							inner(s, depth)
							out = append(out, s)
						}
						return out
					}
					inner = func(s ast.Stmt, depth int) {
						switch st := s.(type) {
						case *ast.BlockStmt:
							st.List = yields(st.List, depth)
						case *ast.IfStmt:
							st.Body.List = yields(st.Body.List, depth)
							if st.Else != nil {
								inner(st.Else, depth)
							}
						case *ast.ForStmt:
							st.Body.List = yields(st.Body.List, depth+1)
						case *ast.RangeStmt:
							st.Body.List = yields(st.Body.List, depth+1)
						case *ast.SwitchStmt:
							for _, c := range st.Body.List {
								cc := c.(*ast.CaseClause)
								cc.Body = yields(cc.Body, depth)
							}
						}
					}
					fd.Body.List = yields(fd.Body.List, 0)
				}
				ast.Inspect(fd.Body, func(n ast.Node) bool {
					switch b := n.(type) {
					case *ast.BlockStmt:
						b.List = rewriteList(b.List)
					case *ast.CaseClause:
						b.Body = rewriteList(b.Body)
					case *ast.CommClause:
						b.Body = rewriteList(b.Body)
					}
					return true
				})
				if mode == "plain" {
					continue
				}
				// map ranges → choice points
				ast.Inspect(fd.Body, func(n ast.Node) bool {
					rs, ok := n.(*ast.RangeStmt)
					if !ok || !isMap(rs.X) {
						return true
					}
					site := rel + ":" + fd.Name.Name
					if pureExpr(rs.X) {
						// ok
					} else {
						info.UncontrolledSites = append(info.UncontrolledSites, site+" (range expression is not a plain variable/selector)")
						return true
					}
					// disambiguate several sites in one function
					cnt := 0
					for _, s := range info.MapRangeSites {
						if s == site || strings.HasPrefix(s, site+"#") {
							cnt++
						}
					}
					if cnt > 0 {
						site = fmt.Sprintf("%s#%d", site, cnt+1)
					}
					info.MapRangeSites = append(info.MapRangeSites, site)
					kv := ast.NewIdent("verifK")
					var pre []ast.Stmt
					pre = append(pre, &ast.IfStmt{
						Init: &ast.AssignStmt{Lhs: []ast.Expr{ast.NewIdent("_"), ast.NewIdent("verifOK")}, Tok: token.DEFINE, Rhs: []ast.Expr{&ast.IndexExpr{X: rs.X, Index: kv}}},
						Cond: &ast.UnaryExpr{Op: token.NOT, X: ast.NewIdent("verifOK")},
						Body: &ast.BlockStmt{List: []ast.Stmt{&ast.BranchStmt{Tok: token.CONTINUE}}},
					})
					tok := rs.Tok
					if rs.Key != nil && !isBlank(rs.Key) {
						pre = append(pre, &ast.AssignStmt{Lhs: []ast.Expr{rs.Key}, Tok: tok, Rhs: []ast.Expr{kv}})
						if tok == token.DEFINE {
							pre = append(pre, &ast.AssignStmt{Lhs: []ast.Expr{ast.NewIdent("_")}, Tok: token.ASSIGN, Rhs: []ast.Expr{rs.Key}})
						}
					}
					if rs.Value != nil && !isBlank(rs.Value) {
						pre = append(pre, &ast.AssignStmt{Lhs: []ast.Expr{rs.Value}, Tok: tok, Rhs: []ast.Expr{&ast.IndexExpr{X: rs.X, Index: kv}}})
						if tok == token.DEFINE {
							pre = append(pre, &ast.AssignStmt{Lhs: []ast.Expr{ast.NewIdent("_")}, Tok: token.ASSIGN, Rhs: []ast.Expr{rs.Value}})
						}
					}
					rs.Body.List = append(pre, rs.Body.List...)
					rs.X = &ast.CallExpr{Fun: sel("verifrt", "MapKeys"), Args: []ast.Expr{rs.X, &ast.BasicLit{Kind: token.STRING, Value: fmt.Sprintf("%q", site)}}}
					rs.Key = ast.NewIdent("_")
					rs.Value = kv
					rs.Tok = token.DEFINE
					changed = true
					return true
				})
			}
			if !changed {
				continue
			}
			f.Decls = append([]ast.Decl{&ast.GenDecl{Tok: token.IMPORT, Specs: []ast.Spec{&ast.ImportSpec{Name: ast.NewIdent("verifrt"), Path: &ast.BasicLit{Kind: token.STRING, Value: fmt.Sprintf("%q", rtPath)}}}}}, f.Decls...)
			var buf bytes.Buffer
			if err := format.Node(&buf, fset, f); err != nil {
				return nil, fmt.Errorf("format %s: %v", fname, err)
			}
			if err := emit(fname, buf.Bytes()); err != nil {
				return nil, err
			}
			info.RewrittenFiles++
		}
	}

	// ---- harness sources: runtime, shims, worker
	copyDir := func(sub, target string) error {
		ents, err := os.ReadDir(filepath.Join(srcDir, sub))
		if err != nil {
			return err
		}
		for _, e := range ents {
			if !strings.HasSuffix(e.Name(), ".go") {
				continue
			}
			overlay[filepath.Join(target, e.Name())] = filepath.Join(srcDir, sub, e.Name())
		}
		return nil
	}
	if err := copyDir("rt", filepath.Join(repo, "internal", "verifrt")); err != nil {
		return nil, err
	}
	if err := copyDir("worker", filepath.Join(repo, "verifx", "worker")); err != nil {
		return nil, err
	}
	// shims: file name <pkgdir with _ for />__name.go, e.g. internal_geom__export.go
	ents, _ := os.ReadDir(filepath.Join(srcDir, "shims"))
	for _, e := range ents {
		if !strings.HasSuffix(e.Name(), ".go") {
			continue
		}
		parts := strings.SplitN(e.Name(), "__", 2)
		if len(parts) != 2 {
			continue
		}
		dir := strings.ReplaceAll(parts[0], "_", "/")
		overlay[filepath.Join(repo, dir, "verif_"+parts[1])] = filepath.Join(srcDir, "shims", e.Name())
	}
	// generated: global snapshot aggregator inside the worker package
	{
		var b bytes.Buffer
		fmt.Fprintf(&b, "package main\n\nimport (\n")
		for i, pk := range snapPkgs {
			fmt.Fprintf(&b, "\tsnap%d %q\n", i, pk.ImportPath)
		}
		fmt.Fprintf(&b, ")\n\n// globalSnapshot renders every package-level variable of the module (generated by vmc/instr).\nfunc globalSnapshot() string {\n\ts := \"\"\n")
		for i, pk := range snapPkgs {
			fmt.Fprintf(&b, "\ts += %q + snap%d.VerifSnapshot() + \"\\n\"\n", pk.ImportPath+": ", i)
		}
		fmt.Fprintf(&b, "\treturn s\n}\n\n// globalRestore resets every package-level variable of the module to its initial value.\nfunc globalRestore() {\n")
		for i := range snapPkgs {
			fmt.Fprintf(&b, "\tsnap%d.VerifRestore()\n", i)
		}
		fmt.Fprintf(&b, "}\n\nconst buildMode = %q\n", mode)
		if err := emit(filepath.Join(repo, "verifx", "worker", "snapshot_gen.go"), b.Bytes()); err != nil {
			return nil, err
		}
	}

	var gnames []string
	for k := range globals {
		gnames = append(gnames, k)
	}
	sort.Strings(gnames)
	for _, k := range gnames {
		g := globals[k]
		sort.Strings(g.Reads)
		sort.Strings(g.Writes)
		info.Globals = append(info.Globals, *g)
	}
	js, _ := json.MarshalIndent(map[string]any{"Replace": overlay}, "", " ")
	info.Overlay = filepath.Join(outDir, "overlay.json")
	if err := os.WriteFile(info.Overlay, js, 0o644); err != nil {
		return nil, err
	}
	ij, _ := json.MarshalIndent(info, "", " ")
	os.WriteFile(filepath.Join(outDir, "instr_info.json"), ij, 0o644)
	return info, nil
}

// Build compiles the worker for the overlay in info.
func Build(repo string, info *Info, out string, race bool) error {
	args := []string{"build", "-tags", "verif", "-overlay", info.Overlay, "-o", out}
	if race {
		args = append(args, "-race")
	}
	args = append(args, modPath+"/verifx/worker")
	cmd := exec.Command("go", args...)
	cmd.Dir = repo
	cmd.Env = goEnv()
	b, err := cmd.CombinedOutput()
	if err != nil {
		return fmt.Errorf("go build: %v\n%s", err, b)
	}
	return nil
}

func isBlank(e ast.Expr) bool { id, ok := e.(*ast.Ident); return ok && id.Name == "_" }
func sel(a, b string) ast.Expr {
	return &ast.SelectorExpr{X: ast.NewIdent(a), Sel: ast.NewIdent(b)}
}

func isNilNode(n ast.Node) bool {
	switch x := n.(type) {
	case ast.Expr:
		return x == nil
	case ast.Stmt:
		return x == nil
	}
	return n == nil
}

func contains(l []string, s string) bool {
	for _, x := range l {
		if x == s {
			return true
		}
	}
	return false
}

func rootIdent(e ast.Expr) *ast.Ident {
	for {
		switch x := e.(type) {
		case *ast.Ident:
			return x
		case *ast.SelectorExpr:
			e = x.X
		case *ast.IndexExpr:
			e = x.X
		case *ast.StarExpr:
			e = x.X
		case *ast.ParenExpr:
			e = x.X
		case *ast.SliceExpr:
			e = x.X
		default:
			return nil
		}
	}
}

func hasCall(e ast.Expr) bool {
	found := false
	ast.Inspect(e, func(n ast.Node) bool {
		if _, ok := n.(*ast.CallExpr); ok {
			found = true
		}
		return !found
	})
	return found
}

// pureExpr: identifiers, selectors and parenthesised forms of them (safe to evaluate more than once)
func pureExpr(e ast.Expr) bool {
	switch x := e.(type) {
	case *ast.Ident:
		return true
	case *ast.SelectorExpr:
		return pureExpr(x.X)
	case *ast.ParenExpr:
		return pureExpr(x.X)
	case *ast.StarExpr:
		return pureExpr(x.X)
	}
	return false
}

// isSyncType: the type (or what it points to) is declared in package sync or sync/atomic.
func isSyncType(t types.Type) bool {
	if p, ok := t.Underlying().(*types.Pointer); ok {
		t = p.Elem()
	}
	if n, ok := t.(*types.Named); ok && n.Obj().Pkg() != nil {
		switch n.Obj().Pkg().Path() {
		case "sync", "sync/atomic":
			return true
		}
	}
	return false
}

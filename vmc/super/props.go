package main

var stdAssume = []string{
	"Go toolchain, runtime and standard library are correct",
	"the instrumenter's rewriting of map ranges preserves semantics apart from iteration order (bound to the real program by the conformance pass against the uninstrumented build)",
	"sizes and spacings come from the stated finite alphabets of small integers / dyadic rationals; nothing is claimed for other values",
	"inputs beyond the stated depth bounds are not covered",
}

func init() {
	std := func(rule string) propSpec {
		return propSpec{Mode: "mapctl", Validate: true, Rule: rule, Assume: stdAssume, BudgetS: 20, QuickDeadS: 420, ThorDeadS: 3000}
	}
	c01 := std("cases = canonical AddEdge histories (restricted-growth edge lists) x configuration grid, each enumerated exactly once; every case is non-trivial for C01 (Layout must return); distinct_observations counts distinct returned layouts")
	c01.FatalIsViolation = true
	props["C01"] = c01
	props["C02"] = std("non-trivial = input with >= 2 edges; cases are distinct by construction (canonical enumeration x configuration)")
	props["C03"] = std("non-trivial = input with >= 2 non-self-loop edges (some band structure exists)")
}

func init() {
	std := func(rule string) propSpec {
		return propSpec{Mode: "mapctl", Validate: true, Rule: rule, Assume: stdAssume, BudgetS: 20, QuickDeadS: 420, ThorDeadS: 3000}
	}
	props["C04"] = std("non-trivial = input with >= 3 nodes (some pair of nodes can collide); every (input, width assignment, configuration) is a distinct case")
	props["C05"] = std("non-trivial = execution in which >= 2 routed non-self-loop edges were judged")
	props["C06"] = std("non-trivial = execution whose drawing contains at least one edge spanning >= 2 bands (a long edge)")
	props["C10"] = std("non-trivial = execution in which the simplex pivoted at least once, or input with >= 3 non-self-loop edges")
	props["C11"] = std("non-trivial = input with >= 2 non-self-loop edges")
	props["C12"] = std("non-trivial = drawing with at least one crossing, or input with >= 4 edges")
	props["C13"] = std("non-trivial = tree with >= 4 nodes")
	props["C14"] = std("non-trivial = execution with at least one reversed edge, or acyclic input with >= 3 edges")
	props["C16"] = std("non-trivial = input with >= 3 nodes")
}

func init() {
	p := propSpec{Mode: "mapctl", Validate: true, Assume: stdAssume, BudgetS: 20, QuickDeadS: 420, ThorDeadS: 3000,
		Rule: "states = choice-point prefixes explored (one per execution); non-trivial = default execution that reaches at least one map range with >= 2 keys; transitions additionally count every alternative taken"}
	props["C07"] = p
}

func init() {
	std := func(rule string) propSpec {
		return propSpec{Mode: "mapctl", Validate: true, Rule: rule, Assume: stdAssume, BudgetS: 20, QuickDeadS: 420, ThorDeadS: 3000}
	}
	props["C08"] = std("a case = (input, configuration) compared under every renaming of the family; non-trivial = input with >= 2 nodes; transitions count the renamed executions")
	props["C09"] = std("a case = one interleaved union of 2-3 connected graphs x configuration, compared with the solo layout of each part; every case is non-trivial (>= 2 components)")
	props["C17"] = std("a case = (input, configuration) compared under every scale factor; non-trivial = input with >= 2 edges; transitions count the scaled executions")
}

func init() {
	props["C18"] = propSpec{Mode: "mapctl", Validate: true, Assume: stdAssume, BudgetS: 20, QuickDeadS: 420, ThorDeadS: 3000,
		Rule: "a case = one history of Layout calls; non-trivial = history with >= 2 calls; states = histories executed, transitions = histories + (state, operation) pairs of the closure search"}
}

func init() {
	props["C15"] = propSpec{Mode: "sched", Validate: false, Race: true, FatalIsViolation: true, BudgetS: 15, QuickDeadS: 420, ThorDeadS: 3000,
		Assume: append([]string{"scheduling points are the statements that mention a package-level variable of the module (found by the type-checked instrumenter); interleavings inside one statement and sharing that does not pass through a package-level variable are only covered by the separate free-running -race pass, which is sampling"}, stdAssume...),
		Rule:   "a case = one scenario of k concurrent Layout calls; states = distinct scheduler state keys (per-thread access counts + per-thread hash of what it read + global snapshot), transitions = (state, granted thread) pairs; every scenario is non-trivial (>= 2 threads over shared package-level variables)"}
}

func init() {
	g := propSpec{Mode: "mapctl", Validate: true, BudgetS: 5, QuickDeadS: 420, ThorDeadS: 3000, FatalIsViolation: true,
		Assume: []string{"Go toolchain and math library", "real-valued corridor coordinates are represented by integer grids; the curve parameter by 401 samples per piece", "the reference (visibility-graph Dijkstra with exact segment-in-corridor tests) is correct"}}
	g.Rule = "a case = (corridor, start point, end point); non-trivial = shortest path with >= 3 points (it bends around a corner)"
	props["C19"] = g
	g.Rule = "a case = one polynomial (roots pass) or one corridor whose shortest path has >= 3 points (fit pass); every such case is non-trivial"
	props["C20"] = g
}

#!/usr/bin/env python3
"""Regenerates /verif/MANIFEST.json from the table below (keeps it valid against the schema at all times)."""
import json, subprocess, sys, os
V = "/verif"
hook_commits = subprocess.run(["git", "-C", "/repo", "log", "--format=%H %s"], capture_output=True, text=True).stdout.splitlines()
hooks = [l.split()[0] for l in hook_commits if " verif hook" in l]

E1 = "explicit-state search over AddEdge operation sequences (canonical edge lists) x configuration grid on the real Layout, judged by an independent reference oracle"
claimed = {
 "C01": ("bounded exhaustive exploration: every canonical AddEdge history up to the stated depth x the full algorithm/size/spacing grid, every RNG answer of the random greedy breaker, structured deep/wide families, gadget-insertion shapes and edit-neighbourhoods of recorded witnesses, the Splines router over 5 size modes x 4 spacings; each execution runs the real Layout in a supervised worker process (panic, stack overflow, OOM, hang all observed)", E1 + "; process-level supervision for fatal ends", "2.3, 4-C01"),
 "C02": ("bounded exhaustive: all edge lists up to depth 4/5 (+ deeper on a cheap tail) x algorithms x five size modes x virtual-node output; oracle = multiset equality with the input and the configured sizes", E1, "4-C02"),
 "C03": ("bounded exhaustive: all edge lists up to depth 5 (thorough 6, 7 on <=4 nodes), DAG multisets D(6,<=7..9), all positioners; oracle recomputes bands/direction from the returned coordinates only", E1, "4-C03"),
 "C04": ("bounded exhaustive: all edge lists up to depth 4/5 x size-aware positioners x EVERY width assignment from {2,30} (thorough {2,10,30}), layered families; oracle = pairwise rectangle disjointness and spacing", E1, "4-C04"),
 "C05": ("bounded exhaustive: all edge lists up to depth 4/5 x positioners x routers; oracle = exact endpoint/arrowhead equations on the returned layout", E1, "4-C05"),
 "C06": ("bounded exhaustive: all edge lists up to depth 4/5(+1) x size-aware positioners x routing styles x heterogeneous sizes; oracle = per-style shape rules", E1, "4-C06"),
 "C10": ("bounded exhaustive: all edge lists up to depth 5 (thorough 6, 7 on <=5 nodes) and every DAG multiset D(6,<=8) (thorough D(6,9), D(7,8)) — the space where pivots happen; optimality decided per instance by an LP-duality max-flow certificate, cross-checked by brute force; capped runs (hook H2) exempt", E1 + " + per-instance optimality certificate", "4-C10"),
 "C11": ("bounded exhaustive: all edge lists up to depth 5/6, DAG multisets, every connected simple DAG on 6 nodes in the 4m rotations of its source-/target-major edge orders, families; oracle = independent longest-path heights on the drawn orientation", E1, "4-C11"),
 "C12": ("bounded exhaustive: all simple edge lists up to depth 5/6, every 2-layer graph up to 3x4 (thorough 4x4) and 3-layer up to 2x3x2 (3x3x3), chains deeper than 64 layers; oracle = O(E^2) crossing count of the returned polylines vs the monitor event", E1 + "; monitor observation", "4-C12"),
 "C13": ("bounded exhaustive: every out-/in-tree up to 6 (thorough 7) edges in every edge order, every ordered rooted tree with 7..9 (thorough ..11) nodes in depth-first / breadth-first edge order and every order within one edge move of those, larger tree families; oracle = drawn crossing count is 0", E1, "4-C13"),
 "C14": ("bounded exhaustive: all edge lists up to depth 5/6 (+ deeper on <=4 nodes), every RNG answer sequence; oracle = independent cycle test on the drawn orientation with each reversed edge flipped back", E1, "4-C14"),
 "C16": ("bounded exhaustive: all connected edge lists up to depth 5/6 x {VAlign,PackRight} x size modes x spacings with helper nodes visible; exact arithmetic oracle", E1, "4-C16"),
 "C07": ("choice-point DFS over map iteration orders on the instrumented build: every execution with <=1 (small inputs: <=2) deviating map orders (all k! orders up to 4 keys, rotations/transpositions/reversal beyond) must return the byte-identical layout; plus repeat-in-process, caller's-data-unmodified, a fresh-process pass on the uninstrumented build, and an explicit-state search over option SEQUENCES (every sequence of <=3 options from an alphabet of 17 x 3 graphs: every size map and the edge slice unchanged, same call after a different call returns the same layout)", "stateless choice-point search (deviation-bounded) over instrumented map ranges + explicit-state search over option sequences + conformance pass against the uninstrumented build", "2.1, 2.4-E2, 4-C07"),
 "C08": ("bounded exhaustive differential check: all edge lists up to depth 3/4 (thorough 4/5) x every injective renaming of <=2 (<=1) nodes into an adversarial name pool + all-node renamings; Layout(rename(G)) == rename(Layout(G)) field by field", E1 + " under a deviation-bounded renaming family", "4-C08"),
 "C09": ("bounded exhaustive differential check: every ordered pair/triple of small connected graphs x ALL order-preserving interleavings of their edge lists; pairs of richer components, large components (sizes around 16/32/64) next to richer ones in both orders; each part of the union's layout must equal its solo layout translated horizontally, extents disjoint", "explicit-state search over interleaved AddEdge histories of disjoint unions, differential oracle against solo runs", "4-C09"),
 "C15": ("stateless interleaving search under a cooperative scheduler on the sched-instrumented build: k=2 (all ordered pairs of a 7-item pool) and k=3 concurrent Layout calls; scheduling points at every access to a package-level variable, around every call on a sync object reached through one, and before every top-level step of Layout itself; pairs: EVERY interleaving (unbounded preemptions, state-key pruning; the key hashes everything reachable from the package-level variables, slices up to capacity); triples: iterative context bounding within a stated schedule budget, completed preemption bound reported (3 in the quick tier); oracle: result == solo result, no pair of conflicting accesses without a common lock / Once ordering (lockset + Once happens-before), no deadlock; plus the static table of every package-level variable with its read/write sites; plus a separate free-running -race pass", "controlled-scheduler interleaving exploration (hand-written, DFS with state-key pruning) + separate free-running race-detector pass", "2.4-E4, 4-C15"),
 "C17": ("bounded exhaustive differential check: all edge lists up to depth 3/4 (4/5) x positioners x routers x every scale factor 2^k, k=-3..6: Layout(c x sizes) == c x Layout(sizes), exact", E1 + ", differential (scale) oracle", "4-C17"),
 "C18": ("explicit-state search over histories of Layout calls: breadth-first over global snapshots (generated for every package-level variable) until closure, plus EVERY history of <=3 (thorough 4) calls over a 24-operation alphabet (graphs x {no monitor, recording, panicking monitor}, empty graph, malformed edge)", "explicit-state BFS over call histories with the generated global snapshot as state key", "2.4-E3, 4-C18"),
 "C19": ("bounded exhaustive: every well-formed corridor of <=4 (thorough 5) rectangles on a 5-value grid x 36 (dense pass: 225) general-position start/end points, wide corridors (aspect up to 24:1), the router's own start/end positions + the degenerate positions for k<=2 (known finding); oracle: exact segment-in-corridor test and visibility-graph Dijkstra length", "exhaustive grid enumeration of corridors on the real geom.Shortest against a reference model", "2.4-E5, 4-C19"),
 "C20": ("bounded exhaustive: spline fitted on every corridor of the C19 spaces (incl. the wide ones) whose shortest path bends (401 samples per piece inside the corridor +-0.05, endpoints, joins); root finder on every polynomial built from a root grid (forward error against the known roots)", "exhaustive grid enumeration on the real FitSpline / solve3 against reference models", "2.4-E5/E6, 4-C20"),
}
pending = {}
props = [json.loads(l) for l in open(f"{V}/properties.jsonl")]
checks, na = [], []
for p in props:
    pid = p["id"]
    if pid in claimed and os.path.exists(f"{V}/vmc/_src/worker"):
        text, tech, ref = claimed[pid]
        checks.append({
            "property_id": pid,
            "quick_cmd": f"./run.sh {pid} quick",
            "thorough_cmd": f"./run.sh {pid} thorough",
            "evidence_file": f"/verif/evidence/{pid}.json",
            "replay_cmd_template": "./run.sh replay {path}",
            "engine": "vmc",
            "level_claimed": {"category": "model_checking", "text": text, "design_ref": "DESIGN.md §" + ref},
            "level_note": "trusted: Go toolchain; the harness oracles (independent reference computations in vmc/_src/worker); the instrumenter's map-range rewriting (bound to the uninstrumented build by the conformance pass); coverage is bounded by the stated depths and alphabets",
            "technique": tech,
        })
    else:
        na.append({"property_id": pid, "reason": pending.get(pid, "check not built yet in this round (design in DESIGN.md §4); not a claim that the technique cannot apply")})
m = {
 "version": 1,
 "setup_cmd": "./setup.sh",
 "hooks": {
   "guard": "verif (Go build tag)",
   "enable": "go build -tags verif -overlay <generated>; the overlay (generated at check time by vmc/instr from /repo's working tree) adds the worker, the runtime internal/verifrt, export shims and the map-range / global-access instrumentation; only hooks H1 (phase1/greedy.go pickNode choice point) and H2 (phase2/network_simplex.go pivot report) live in /repo",
   "baseline_off_cmd": "cd /repo && go test -vet=off -count=1 ./...",
   "source_commits": hooks,
   "add_only": True,
 },
 "engines": [{"name": "vmc", "path": "/verif/vmc", "serves_properties": [c["property_id"] for c in checks],
              "kind_free_text": "hand-written bounded explicit-state explorer: type-aware instrumenter (vmc/instr) + supervisor (vmc/super) + worker compiled into the module under test via go build -overlay (vmc/_src)"}],
 "checks": checks,
 "not_applicable": na,
 "notes": "All checks rebuild the worker from /repo's current working tree. Known findings: /verif/known_findings.json (3 known, 19 fixed). Detection record: mutants/ (own catalogue, negative controls, refactorings) and seeded/ (40 changes by independent sub-agents); DESIGN.md §9.",
}
json.dump(m, open(f"{V}/MANIFEST.json", "w"), indent=1)
try:
    import jsonschema
    jsonschema.validate(m, json.load(open("/root/.vp/MANIFEST.schema.json")))
    print("MANIFEST valid:", len(checks), "checks,", len(na), "not claimed")
except ImportError:
    print("written (jsonschema not available)")

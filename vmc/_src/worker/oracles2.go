package main

import (
	"fmt"
	"math"
	"sort"
	"strconv"

	"github.com/nulab/autog/graph"
)

// drawn returns the edges in their drawn (downward) orientation as node-number pairs, self-loops dropped.
func (v *View) drawn() (es [][2]int, flagged []bool) {
	for _, e := range v.l.Edges {
		if e.FromID == e.ToID {
			continue
		}
		u, w := v.idx[e.FromID], v.idx[e.ToID]
		if e.ArrowHeadStart {
			u, w = w, u
		}
		es = append(es, [2]int{u, w})
		flagged = append(flagged, e.ArrowHeadStart)
	}
	return
}

func hasCycle(n int, es [][2]int) bool {
	adj := make([][]int, n)
	for _, e := range es {
		adj[e[0]] = append(adj[e[0]], e[1])
	}
	st := make([]int, n)
	var dfs func(u int) bool
	dfs = func(u int) bool {
		st[u] = 1
		for _, w := range adj[u] {
			if st[w] == 1 || (st[w] == 0 && dfs(w)) {
				return true
			}
		}
		st[u] = 2
		return false
	}
	for u := 0; u < n; u++ {
		if st[u] == 0 && dfs(u) {
			return true
		}
	}
	return false
}

// ---------------------------------------------------------------- C11

func oracleC11(x *Ctx, in Input, a *Analysis, c Cfg, r *Res) {
	v := newView(in, a, c, r.L)
	if !v.nodesComplete() {
		return
	}
	v.computeBands()
	es, _ := v.drawn()
	n := in.N()
	if hasCycle(n, es) {
		return // C03's business (an edge drawn upward without flag, or flat)
	}
	adj := make([][]int, n)
	for _, e := range es {
		adj[e[0]] = append(adj[e[0]], e[1])
	}
	h := make([]int, n)
	var lp func(u int) int
	lp = func(u int) int {
		if h[u] > 0 {
			return h[u]
		}
		b := 1
		for _, w := range adj[u] {
			if t := lp(w) + 1; t > b {
				b = t
			}
		}
		h[u] = b
		return b
	}
	maxh := make([]int, a.NComp)
	for i := 0; i < n; i++ {
		if lp(i) > maxh[a.Comp[i]] {
			maxh[a.Comp[i]] = lp(i)
		}
	}
	for comp := 0; comp < a.NComp; comp++ {
		if len(v.bands[comp]) != maxh[comp] {
			x.Violate("C11:band-count", &c, nil, fmt.Sprintf("component %d has %d bands, its longest directed path has %d nodes\n%s", comp, len(v.bands[comp]), maxh[comp], describeLayout(r.L)))
			return
		}
	}
	for i := 0; i < n; i++ {
		want := maxh[a.Comp[i]] - h[i]
		if got := v.bandIndex(i); got != want {
			x.Violate("C11:node-band", &c, nil, fmt.Sprintf("node %q is in band %d, longest path to a sink has %d nodes so it belongs in band %d\n%s", in.Name(i), got, h[i], want, describeLayout(r.L)))
			return
		}
	}
}

// ---------------------------------------------------------------- C14

func oracleC14(x *Ctx, in Input, a *Analysis, c Cfg, r *Res) (reversed int) {
	v := newView(in, a, c, r.L)
	if !v.nodesComplete() {
		return
	}
	es, fl := v.drawn()
	for _, f := range fl {
		if f {
			reversed++
		}
	}
	if a.DAG && reversed > 0 {
		x.Violate("C14:reversed-in-dag", &c, nil, fmt.Sprintf("acyclic input but %d edge(s) are flagged ArrowHeadStart\n%s", reversed, describeLayout(r.L)))
		return
	}
	if c.P1 == 1 && reversed > 0 {
		n := in.N()
		for k := range es {
			if !fl[k] {
				continue
			}
			t := append([][2]int(nil), es...)
			t[k] = [2]int{es[k][1], es[k][0]}
			if !hasCycle(n, t) {
				x.Violate("C14:dfs-not-minimal", &c, nil, fmt.Sprintf("depth-first breaker: un-reversing edge %d (%s->%s) alone leaves the drawn orientation acyclic: the reversed set is not minimal\n%s", k, in.Name(es[k][1]), in.Name(es[k][0]), describeLayout(r.L)))
				return
			}
		}
	}
	return
}

// ---------------------------------------------------------------- C16

func oracleC16(x *Ctx, in Input, a *Analysis, c Cfg, r *Res) {
	ns := c.NS * math.Ldexp(1, c.Scale)
	byY := map[float64][]graph.Node{}
	minx := math.Inf(1)
	for _, nd := range r.L.Nodes {
		byY[nd.Y] = append(byY[nd.Y], nd)
		minx = math.Min(minx, nd.X)
	}
	if minx != 0 {
		x.Violate("C16:leftmost", &c, nil, fmt.Sprintf("leftmost node is at x=%g, not 0\n%s", minx, describeLayout(r.L)))
	}
	var ys []float64
	for y := range byY {
		ys = append(ys, y)
	}
	sort.Float64s(ys)
	var ref float64
	for i, y := range ys {
		nds := byY[y]
		lo, hi, sw := math.Inf(1), math.Inf(-1), 0.0
		for _, nd := range nds {
			lo = math.Min(lo, nd.X)
			hi = math.Max(hi, nd.X+nd.W)
			sw += nd.W
		}
		if hi-lo != sw+float64(len(nds)-1)*ns {
			x.Violate("C16:extent", &c, nil, fmt.Sprintf("band y=%g: extent %g != sum of widths %g + %d x NodeSpacing %g\n%s", y, hi-lo, sw, len(nds)-1, ns, describeLayout(r.L)))
			return
		}
		val := (lo + hi) / 2
		if c.P4 == 2 {
			val = hi
		}
		if i == 0 {
			ref = val
		} else if val != ref {
			what := "midpoint"
			if c.P4 == 2 {
				what = "right end"
			}
			x.Violate("C16:alignment", &c, nil, fmt.Sprintf("band y=%g has %s %g, band y=%g has %g\n%s", y, what, val, ys[0], ref, describeLayout(r.L)))
			return
		}
	}
}

// ---------------------------------------------------------------- C10

// optimalByCertificate decides whether the layering (band per node) minimises total edge length for the drawn
// orientation, by LP duality: it is optimal iff there is a non-negative flow on the TIGHT edges (span 1) whose
// net inflow at every node equals (in-degree - out-degree). Decided with a tiny augmenting-path max-flow.
func optimalByCertificate(n int, es [][2]int, band []int) bool {
	// nodes 0..n-1, source n, sink n+1
	N := n + 2
	capm := make([][]int, N)
	for i := range capm {
		capm[i] = make([]int, N)
	}
	const inf = 1 << 30
	b := make([]int, n)
	for _, e := range es {
		b[e[1]]++
		b[e[0]]--
		if band[e[1]]-band[e[0]] == 1 {
			capm[e[0]][e[1]] = inf
		}
	}
	need := 0
	for v := 0; v < n; v++ {
		if b[v] < 0 { // must send out -b[v] more than it receives
			capm[n][v] = -b[v]
			need += -b[v]
		} else if b[v] > 0 {
			capm[v][n+1] = b[v]
		}
	}
	flow := 0
	for {
		prev := make([]int, N)
		for i := range prev {
			prev[i] = -1
		}
		prev[n] = n
		q := []int{n}
		for len(q) > 0 && prev[n+1] < 0 {
			u := q[0]
			q = q[1:]
			for w := 0; w < N; w++ {
				if prev[w] < 0 && capm[u][w] > 0 {
					prev[w] = u
					q = append(q, w)
				}
			}
		}
		if prev[n+1] < 0 {
			break
		}
		f := inf
		for w := n + 1; w != n; w = prev[w] {
			if capm[prev[w]][w] < f {
				f = capm[prev[w]][w]
			}
		}
		for w := n + 1; w != n; w = prev[w] {
			capm[prev[w]][w] -= f
			capm[w][prev[w]] += f
		}
		flow += f
	}
	return flow == need
}

// optimumBrute is the second, independent opinion: exhaustive search over all layer assignments (small n).
func optimumBrute(n int, es [][2]int) int {
	// topological order of the drawn orientation
	indeg := make([]int, n)
	adj := make([][]int, n)
	pred := make([][]int, n)
	for _, e := range es {
		indeg[e[1]]++
		adj[e[0]] = append(adj[e[0]], e[1])
		pred[e[1]] = append(pred[e[1]], e[0])
	}
	var order []int
	var q []int
	for v := 0; v < n; v++ {
		if indeg[v] == 0 {
			q = append(q, v)
		}
	}
	for len(q) > 0 {
		u := q[0]
		q = q[1:]
		order = append(order, u)
		for _, w := range adj[u] {
			indeg[w]--
			if indeg[w] == 0 {
				q = append(q, w)
			}
		}
	}
	best := math.MaxInt
	l := make([]int, n)
	var rec func(i, cost int)
	rec = func(i, cost int) {
		if cost >= best {
			return
		}
		if i == n {
			best = cost
			return
		}
		v := order[i]
		lo := 0
		for _, u := range pred[v] {
			if l[u]+1 > lo {
				lo = l[u] + 1
			}
		}
		for k := lo; k < n; k++ {
			l[v] = k
			cst := cost
			for _, u := range pred[v] {
				cst += k - l[u]
			}
			rec(i+1, cst)
		}
	}
	rec(0, 0)
	return best
}

func oracleC10(x *Ctx, in Input, a *Analysis, c Cfg, r *Res) (pivots int, capped bool) {
	v := newView(in, a, c, r.L)
	if !v.nodesComplete() {
		return
	}
	n := in.N()
	// uniform 10x6 nodes and spacing (4,8): band k of a component sits at y = 14k exactly
	step := (fixH + c.LS) * math.Ldexp(1, c.Scale)
	band := make([]int, n)
	used := make([]map[int]bool, a.NComp)
	for i := range used {
		used[i] = map[int]bool{}
	}
	for i, nd := range v.node {
		k := nd.Y / step
		if k != math.Trunc(k) || k < 0 {
			x.Violate("C10:empty-band", &c, nil, fmt.Sprintf("node %q at y=%g is not on the band grid of step %g: some band between used ones holds no node\n%s", in.Name(i), nd.Y, step, describeLayout(r.L)))
			return
		}
		band[i] = int(k)
		used[a.Comp[i]][int(k)] = true
	}
	for comp, u := range used {
		for k := 0; k < len(u); k++ {
			if !u[k] {
				x.Violate("C10:empty-band", &c, nil, fmt.Sprintf("component %d: band %d is empty but a later band is used\n%s", comp, k, describeLayout(r.L)))
				return
			}
		}
	}
	for _, p := range r.Pivots {
		pivots += p.Pivots
		if p.Pending && p.Pivots >= p.Maxitr {
			capped = true
		}
	}
	es, _ := v.drawn()
	total := 0
	for _, e := range es {
		d := band[e[1]] - band[e[0]]
		if d < 1 {
			return // infeasible: C03's business
		}
		total += d
	}
	if capped {
		return
	}
	if !optimalByCertificate(n, es, band) {
		opt := -1
		if n <= 7 {
			opt = optimumBrute(n, es)
		}
		x.Violate("C10:suboptimal", &c, nil, fmt.Sprintf("total edge length %d is not minimal (no dual certificate; brute-force optimum %d; pivots=%d)\n%s", total, opt, pivots, describeLayout(r.L)))
		return
	}
	// second opinion on every case that pivoted and on a slice of the others
	if n <= 6 && (pivots > 0 || x.inputIdx%8 == 0) {
		if opt := optimumBrute(n, es); opt != total {
			x.Violate("C10:suboptimal", &c, nil, fmt.Sprintf("total edge length %d but brute-force optimum is %d (certificate said optimal: oracle disagreement)\n%s", total, opt, describeLayout(r.L)))
		}
	}
	return
}

// ---------------------------------------------------------------- C12 / C13

// drawnCrossings counts, from the returned drawing alone, the pairs of edge segments between the same two adjacent
// bands of the same component whose x-order at the top is strictly opposite to their x-order at the bottom.
func drawnCrossings(v *View) (int, bool) {
	type seg struct {
		comp, band int
		xu, xl     float64
	}
	var segs []seg
	for _, e := range v.l.Edges {
		if e.FromID == e.ToID {
			continue
		}
		fi, ti := v.idx[e.FromID], v.idx[e.ToID]
		bf, bt := v.bandIndex(fi), v.bandIndex(ti)
		if bf == bt {
			return 0, false
		}
		top := bf
		if bt < bf {
			top = bt
		}
		span := bf - bt
		if span < 0 {
			span = -span
		}
		if len(e.Points) != span+1 {
			return 0, false // C06's business
		}
		for i := 1; i < len(e.Points); i++ {
			segs = append(segs, seg{v.a.Comp[fi], top + i - 1, e.Points[i-1][0], e.Points[i][0]})
		}
	}
	cnt := 0
	for i := range segs {
		for j := i + 1; j < len(segs); j++ {
			p, q := segs[i], segs[j]
			if p.comp != q.comp || p.band != q.band {
				continue
			}
			if (p.xu < q.xu && p.xl > q.xl) || (p.xu > q.xu && p.xl < q.xl) {
				cnt++
			}
		}
	}
	return cnt, true
}

func reportedCrossings(r *Res) (sum, events int) {
	for _, e := range r.Events {
		if e.Phase == 3 && e.Key == "crossings" {
			k, err := strconv.Atoi(e.Val)
			if err == nil {
				sum += k
				events++
			}
		}
	}
	return
}

func oracleC12(x *Ctx, in Input, a *Analysis, c Cfg, r *Res) (drawn int) {
	v := newView(in, a, c, r.L)
	if !v.nodesComplete() {
		return
	}
	v.computeBands()
	d, ok := drawnCrossings(v)
	if !ok {
		return
	}
	rep, _ := reportedCrossings(r)
	if d != rep {
		x.Violate("C12:count-mismatch", &c, nil, fmt.Sprintf("ordering phase reported %d crossings, the drawing has %d\n%s", rep, d, describeLayout(r.L)))
	}
	return d
}

func oracleC13(x *Ctx, in Input, a *Analysis, c Cfg, r *Res) {
	v := newView(in, a, c, r.L)
	if !v.nodesComplete() {
		return
	}
	v.computeBands()
	d, ok := drawnCrossings(v)
	if ok && d != 0 {
		x.Violate("C13:tree-crossing", &c, nil, fmt.Sprintf("rooted tree drawn with %d crossing(s)\n%s", d, describeLayout(r.L)))
	}
}

package main

import (
	"fmt"
	"os"
	"runtime"
	"sync"
	"sync/atomic"
	"time"

	"github.com/nulab/autog"
	"github.com/nulab/autog/graph"
	"github.com/nulab/autog/internal/phase1"
	"github.com/nulab/autog/internal/phase2"
	"github.com/nulab/autog/internal/verifrt"
)

// C15 — E4: interleaving search. k threads each perform one Layout call (no monitor) on an item of the pool; the
// cooperative scheduler (sched build) makes every access to a package-level variable a scheduling point.

type c15Item struct {
	name string
	e    []int
	opts func() []autog.Option
}

var c15Pool = []c15Item{
	{"cyclic graph, random greedy breaker (RNG answers fixed by hook H1)", []int{0, 1, 1, 2, 2, 0, 2, 3, 3, 1}, func() []autog.Option {
		return []autog.Option{autog.WithNonDeterministicGreedyCycleBreaker(), autog.WithNodeFixedSize(10, 6)}
	}},
	{"three components incl. a self-looped single node, default options", []int{0, 1, 2, 2, 3, 4, 0, 5}, func() []autog.Option { return nil }},
	{"long edges, orthogonal routing, per-node sizes", []int{0, 1, 1, 2, 0, 2, 2, 3, 0, 3}, func() []autog.Option {
		return []autog.Option{autog.WithEdgeRouting(autog.EdgeRoutingOrtho), autog.WithNodeSize(map[string]graph.Size{"n0": {W: 30, H: 6}, "n2": {W: 6, H: 12}}), autog.WithNodeFixedSize(10, 6)}
	}},
	{"network simplex positioner, longest path layering", []int{0, 1, 0, 2, 1, 3, 2, 3}, func() []autog.Option {
		return []autog.Option{autog.WithPositioning(autog.PositioningNetworkSimplex), autog.WithLayering(autog.LayeringLongestPath), autog.WithNodeFixedSize(10, 6), autog.WithNodeSpacing(4)}
	}},
	{"brandes-koepf, dfs breaker, virtual-node output", []int{0, 1, 0, 2, 1, 3, 2, 3, 0, 3, 3, 0}, func() []autog.Option {
		return []autog.Option{autog.WithPositioning(autog.PositioningBrandesKoepf), autog.WithCycleBreaking(autog.CycleBreakingDepthFirst), autog.WithOutputVirtualNodes(true)}
	}},
	{"splines, single edge (straight spline)", []int{0, 1}, func() []autog.Option {
		return []autog.Option{autog.WithEdgeRouting(autog.EdgeRoutingSplines), autog.WithNodeFixedSize(10, 6)}
	}},
	{"per-node sizes from two size maps (other sizes for the same node names than the ortho item), valign, polyline", []int{0, 1, 0, 2, 1, 3, 0, 3}, func() []autog.Option {
		return []autog.Option{autog.WithPositioning(autog.PositioningVAlign), autog.WithEdgeRouting(autog.EdgeRoutingPolyline),
			autog.WithNodeSize(map[string]graph.Size{"n0": {W: 12, H: 4}, "n1": {W: 18, H: 10}, "n2": {W: 2, H: 2}}),
			autog.WithNodeSize(map[string]graph.Size{"n3": {W: 40, H: 8}, "n2": {W: 22, H: 6}})}
	}},
}

func c15Body(it c15Item) func() string {
	return func() string {
		src := graph.EdgeSlice(Input{E: it.e}.Edges())
		// rendered with %g (shortest representation that round-trips): equality of the text is equality of the layout
		return describeLayout(autog.Layout(src, it.opts()...))
	}
}

func c15Hooks() {
	phase1.VerifPickHook = func(n int) (int, bool) { return n / 2, true }
	phase2.VerifPivotsHook = nil
}

// cap on the schedules explored per scenario (a run that hits it reports exhaustive:false for that scenario)
var c15MaxSchedules = 40000

// schedules per 3-thread scenario (spent on iterative context bounding; the evidence reports the bound completed)
var c15TripleBudget = 12000

var c15Solo []string

func c15SoloResults() {
	if c15Solo != nil {
		return
	}
	c15Hooks()
	for _, it := range c15Pool {
		verifrt.Reset(nil)
		globalRestore() // "alone" = from the initial global state, like every thread of a scenario
		c15Solo = append(c15Solo, c15Body(it)())
	}
	globalRestore()
}

func evalC15(x *Ctx, in Input) {
	if !x.Unit(nil) {
		return
	}
	c15SoloResults()
	bodies := make([]func() string, len(in.E))
	for i, k := range in.E {
		bodies[i] = c15Body(c15Pool[k])
	}
	globalRestore()
	snap0 := globalSnapshot()
	visited := map[string]bool{}
	states := map[string]bool{}
	execs := 0
	maxPre := 0
	viol0 := x.st.Violations + sumMap(x.st.Known)
	capped, cutByBound, bound := false, false, 0
	// within a bounded round the preemptions used so far are part of the pruning key (the same state reached with fewer
	// preemptions used has more futures inside the bound); the unbounded search prunes on the state alone
	vkey := func(key string, t, cost int) string {
		if bound >= 1<<30 {
			return fmt.Sprint(key, "#", t)
		}
		return fmt.Sprint(key, "#", t, "#", cost)
	}
	var explore func(prefix []int)
	explore = func(prefix []int) {
		if x.st.Violations+sumMap(x.st.Known) > viol0 || len(x.replayed) > 0 {
			return // a counterexample for this scenario has been recorded: no need to enumerate the rest
		}
		if execs >= c15MaxSchedules || (!x.deadline.IsZero() && execs%64 == 0 && time.Now().After(x.deadline)) {
			capped = true
			return
		}
		atomic.AddUint64(&wdBeat, 1)
		s := verifrt.RunSched(bodies, prefix, globalSnapshot)
		execs++
		x.st.Evaluations++
		x.st.PassEvals[x.pass.Name]++
		for i, k := range in.E {
			if s.Result[i] != c15Solo[k] {
				x.Violate("C15:result-differs-from-solo", nil, map[string]any{"schedule": prefix}, fmt.Sprintf("thread %d (%s) returned something else than when run alone, under schedule %v\nalone:\n%sin this schedule:\n%s", i, c15Pool[k].name, prefix, c15Solo[k], s.Result[i]))
			}
		}
		if s.Deadlock != "" {
			x.Violate("C15:deadlock", nil, map[string]any{"schedule": prefix}, s.Deadlock+fmt.Sprintf(" under schedule %v", prefix))
			return
		}
		for v, d := range s.Races {
			x.Violate("C15:data-race:"+v, nil, map[string]any{"schedule": prefix}, d)
		}
		if g := globalSnapshot(); g != snap0 {
			// not a violation by itself (a correctly synchronised cache or counter is legitimate): the state is part of the
			// scheduler's state key, results are compared with the solo results, accesses are judged by the race rule
			x.Hist("package-level data differs after the scenario (informational)", 1)
		}
		// every execution starts from the initial global state — data AND sync objects (lazily built tables are rebuilt)
		globalRestore()
		choices := make([]int, len(s.Trace))
		preBefore := make([]int, len(s.Trace)+1) // preemptions used before decision i
		for i, st := range s.Trace {
			states[st.Key] = true
			for ci, t := range st.Enabled {
				if t == st.Chosen {
					choices[i] = ci
				}
			}
			preBefore[i+1] = preBefore[i]
			if i > 0 && st.Chosen != s.Trace[i-1].Chosen && len(st.Enabled) > 0 && st.Enabled[0] == s.Trace[i-1].Chosen {
				preBefore[i+1]++
			}
		}
		if p := preBefore[len(s.Trace)]; p > maxPre {
			maxPre = p
		}
		for i := len(prefix); i < len(s.Trace); i++ {
			st := s.Trace[i]
			visited[vkey(st.Key, st.Chosen, preBefore[i+1])] = true
		}
		for i := len(prefix); i < len(s.Trace); i++ {
			st := s.Trace[i]
			for ci, t := range st.Enabled {
				if t == st.Chosen {
					continue
				}
				// switching away from the thread that was running and is still enabled is a preemption
				cost := preBefore[i]
				if i > 0 && st.Enabled[0] == s.Trace[i-1].Chosen && t != st.Enabled[0] {
					cost++
				}
				if cost > bound {
					cutByBound = true
					continue
				}
				k := vkey(st.Key, t, cost)
				if visited[k] {
					continue
				}
				visited[k] = true
				explore(append(append([]int{}, choices[:i]...), ci))
			}
		}
	}
	// iterative context bounding: all schedules with 0 preemptions, then <= 1, <= 2, ... Each round is a complete search
	// within its bound (state-key pruning inside a round distinguishes the preemptions used so far); a round in which the
	// bound cut nothing IS the unbounded search. The budget (schedule cap) ends the iteration: the last completed bound is
	// what the evidence reports.
	completed, unbounded, grants := -1, false, 0
	// first the unbounded search outright: when the scenario is small enough for the budget that is the whole answer
	budget := c15MaxSchedules
	if len(in.E) <= 2 {
		bound = 1 << 30
		explore(nil)
		grants += len(visited)
		if !capped {
			unbounded = true
		}
		if capped {
			capped = false
			c15MaxSchedules = execs + budget/2 // a second, smaller budget for the bounded iteration
		}
	} else {
		// three threads with a scheduling point at every step of Layout: the unbounded search does not fit any budget worth
		// waiting for, so the budget goes to the bounded iteration outright (0, 1, 2, ... preemptions)
		c15MaxSchedules = c15TripleBudget
	}
	for bound = 0; !unbounded; bound++ {
		cutByBound = false
		visited = map[string]bool{}
		explore(nil)
		grants += len(visited)
		if capped || x.st.Violations+sumMap(x.st.Known) > viol0 || len(x.replayed) > 0 {
			break
		}
		completed = bound
		if !cutByBound {
			unbounded = true
			break
		}
	}
	c15MaxSchedules = budget
	if unbounded {
		x.Hist("preemption-bound-completed", "unbounded")
	} else {
		x.Hist("preemption-bound-completed", completed)
		if capped {
			x.st.DeadlineHit = true
			x.st.Notes = appendOnce(x.st.Notes, fmt.Sprintf("C15: scenario %v: budget of %d schedules reached; every schedule with <= %d preemptions was explored", in.E, execs, completed))
		}
	}
	x.st.Transitions += int64(grants)
	x.Hist("threads", len(in.E))
	x.Hist("schedules-per-scenario", execs)
	x.Hist("max-preemptions-in-a-schedule", maxPre)
	x.st.States += int64(len(states))
	x.Nontrivial([]byte(fmt.Sprint(in.E, execs, len(states))))
	x.Sample(map[string]any{"threads": in.E, "schedules": execs, "scheduler_states": len(states), "grants": grants, "preemption_bound_completed": map[bool]any{true: "unbounded", false: completed}[unbounded]})
}

func appendOnce(l []string, s string) []string {
	for _, t := range l {
		if t == s {
			return l
		}
	}
	return append(l, s)
}

func c15Tuples(k int) func(emit func(Input)) {
	return func(emit func(Input)) {
		t := make([]int, k)
		var rec func(i int)
		rec = func(i int) {
			if i == k {
				emit(Input{E: append([]int(nil), t...)})
				return
			}
			for j := range c15Pool {
				t[i] = j
				rec(i + 1)
			}
		}
		rec(0)
	}
}

// racePass is the separate free-running pass the technique requires (a cooperative scheduler's hand-offs are
// happens-before edges that blind the race detector): same bodies, real goroutines, -race build, no scheduler.
func racePass() int {
	c15Hooks()
	var solo []string
	for _, it := range c15Pool {
		solo = append(solo, c15Body(it)())
	}
	bad := 0
	runs := 0
	for _, procs := range []int{1, 4, 16} {
		runtime.GOMAXPROCS(procs)
		for _, k := range []int{2, 16, 64} {
			for rep := 0; rep < 6; rep++ {
				var wg sync.WaitGroup
				res := make([]string, k)
				for g := 0; g < k; g++ {
					wg.Add(1)
					go func(g int) {
						defer wg.Done()
						defer func() {
							if e := recover(); e != nil {
								res[g] = fmt.Sprint("PANIC ", e)
							}
						}()
						res[g] = c15Body(c15Pool[(g+rep)%len(c15Pool)])()
					}(g)
				}
				wg.Wait()
				runs += k
				for g := 0; g < k; g++ {
					if res[g] != solo[(g+rep)%len(c15Pool)] {
						bad++
						fmt.Printf("RACEPASS-MISMATCH goroutine %d of %d (GOMAXPROCS=%d): %s returned something else than when run alone\n", g, k, procs, c15Pool[(g+rep)%len(c15Pool)].name)
					}
				}
			}
		}
	}
	fmt.Printf("RACEPASS calls=%d mismatches=%d\n", runs, bad)
	if bad > 0 {
		return 1
	}
	return 0
}

func init() {
	checks["C15"] = func(tier string) []*Pass {
		if tier == "thorough" {
			c15MaxSchedules = 400000
			c15TripleBudget = 6000 // x 343 triples
		}
		if v := os.Getenv("VERIF_C15_TRIPLE_BUDGET"); v != "" {
			fmt.Sscan(v, &c15TripleBudget) // development aid
		}
		ps := []*Pass{
			{Name: "pairs", Space: c15Tuples(2), Eval: evalC15, BudgetS: 15,
				Bound: fmt.Sprintf("2 threads: every ordered pair from a pool of %d (graph, options) items; EVERY interleaving of the accesses to package-level variables (unbounded preemptions, pruned by state key)", len(c15Pool))},
		}
		if tier == "thorough" {
			ps = append(ps, &Pass{Name: "triples", Space: c15Tuples(3), Eval: evalC15, BudgetS: 20,
				Bound: "3 threads: every ordered triple from the pool; iterative context bounding: every schedule with <= b preemptions for b = 0, 1, 2, ... within a budget of 6 000 schedules per scenario (the bound completed is reported per scenario)"})
		} else {
			ps = append(ps, &Pass{Name: "triples-sample", Space: spaceList([]Input{{E: []int{0, 1, 2}}, {E: []int{3, 4, 5}}, {E: []int{6, 2, 6}}, {E: []int{5, 0, 3}}}), Eval: evalC15, BudgetS: 20,
				Bound: "3 threads: 4 triples from the pool; iterative context bounding: every schedule with <= b preemptions for b = 0, 1, 2, ... within a budget of 12 000 schedules per scenario (the bound completed is reported per scenario)"})
		}
		return ps
	}
	if len(os.Args) > 1 && os.Args[1] == "-racepass" {
		os.Exit(racePass())
	}
}

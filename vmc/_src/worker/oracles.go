package main

import (
	"fmt"
	"math"
	"sort"

	"github.com/nulab/autog/graph"
)

// View is the reference model's reading of a returned layout: nothing but the returned graph.Layout and the
// input edge list are used.
type View struct {
	in    Input
	a     *Analysis
	c     Cfg
	l     graph.Layout
	idx   map[string]int // input node name -> node number
	node  []graph.Node   // per input node number
	seen  []int          // how many times each input node appears in the output
	extra []graph.Node   // output nodes that are not input nodes
	// bands per component: sorted distinct Y values of the component's real nodes
	bands [][]float64
}

func newView(in Input, a *Analysis, c Cfg, l graph.Layout) *View {
	v := &View{in: in, a: a, c: c, l: l, idx: map[string]int{}}
	n := in.N()
	v.node = make([]graph.Node, n)
	v.seen = make([]int, n)
	for i := 0; i < n; i++ {
		v.idx[in.Name(i)] = i
	}
	for _, nd := range l.Nodes {
		if i, ok := v.idx[nd.ID]; ok {
			if v.seen[i] == 0 {
				v.node[i] = nd
			}
			v.seen[i]++
		} else {
			v.extra = append(v.extra, nd)
		}
	}
	return v
}

func (v *View) nodesComplete() bool {
	for _, s := range v.seen {
		if s != 1 {
			return false
		}
	}
	return true
}

func (v *View) computeBands() {
	v.bands = make([][]float64, v.a.NComp)
	for i, nd := range v.node {
		c := v.a.Comp[i]
		v.bands[c] = append(v.bands[c], nd.Y)
	}
	for c := range v.bands {
		sort.Float64s(v.bands[c])
		j := 0
		for i, y := range v.bands[c] {
			if i == 0 || y != v.bands[c][j-1] {
				v.bands[c][j] = y
				j++
			}
		}
		v.bands[c] = v.bands[c][:j]
	}
}

func (v *View) bandIndex(node int) int {
	b := v.bands[v.a.Comp[node]]
	return sort.SearchFloat64s(b, v.node[node].Y)
}

func finite(f float64) bool { return !math.IsNaN(f) && !math.IsInf(f, 0) }

// ---------------------------------------------------------------- C02

func oracleC02(x *Ctx, in Input, a *Analysis, c Cfg, r *Res) {
	v := newView(in, a, c, r.L)
	n, m := in.N(), in.M()
	for i := 0; i < n; i++ {
		if v.seen[i] != 1 {
			x.Violate("C02:node-count", &c, nil, fmt.Sprintf("input node %q appears %d times in the output\n%s", in.Name(i), v.seen[i], describeLayout(r.L)))
			return
		}
	}
	if !c.Virt && len(v.extra) > 0 {
		x.Violate("C02:extra-node", &c, nil, fmt.Sprintf("output contains node %q that is not an input node\n%s", v.extra[0].ID, describeLayout(r.L)))
	}
	if c.Virt && c.P5 == 2 {
		bends := 0
		for _, e := range r.L.Edges {
			if len(e.Points) > 2 {
				bends += len(e.Points) - 2
			}
		}
		if bends != len(v.extra) {
			x.Violate("C02:virtual-node-count", &c, nil, fmt.Sprintf("virtual-node output: %d extra nodes but %d polyline bends\n%s", len(v.extra), bends, describeLayout(r.L)))
		}
	}
	for i := 0; i < n; i++ {
		w, h := c.expSize(i)
		if v.node[i].W != w || v.node[i].H != h {
			x.Violate("C02:size", &c, nil, fmt.Sprintf("node %q has size %gx%g, configured %gx%g (listed in per-node map: %v)", in.Name(i), v.node[i].W, v.node[i].H, w, h, c.listed(i)))
			break
		}
	}
	type pr struct{ u, v string }
	want := map[pr]int{}
	for i := 0; i < m; i++ {
		want[pr{in.Name(in.E[2*i]), in.Name(in.E[2*i+1])}]++
	}
	got := map[pr]int{}
	for _, e := range r.L.Edges {
		got[pr{e.FromID, e.ToID}]++
		if e.FromID == e.ToID && len(e.Points) != 0 {
			x.Violate("C02:self-loop-routed", &c, nil, fmt.Sprintf("self-loop on %q has points %v", e.FromID, e.Points))
		}
	}
	bad := len(got) != len(want)
	for k, w := range want {
		if got[k] != w {
			bad = true
		}
	}
	if bad || len(r.L.Edges) != m {
		x.Violate("C02:edge-multiset", &c, nil, fmt.Sprintf("output edges differ from input edges: want %v got %v", want, got))
	}
}

// ---------------------------------------------------------------- C03

func oracleC03(x *Ctx, in Input, a *Analysis, c Cfg, r *Res) {
	v := newView(in, a, c, r.L)
	if !v.nodesComplete() {
		return // C02's business
	}
	v.computeBands()
	// band spacing
	for comp := 0; comp < a.NComp; comp++ {
		b := v.bands[comp]
		bottom := make([]float64, len(b))
		for i := range bottom {
			bottom[i] = b[i]
		}
		for i, nd := range v.node {
			if a.Comp[i] != comp {
				continue
			}
			k := v.bandIndex(i)
			bottom[k] = math.Max(bottom[k], nd.Y+nd.H)
		}
		for k := 0; k+1 < len(b); k++ {
			if !(b[k+1] >= bottom[k]+c.LS*math.Ldexp(1, c.Scale)) {
				x.Violate("C03:band-spacing", &c, nil, fmt.Sprintf("component %d: band at y=%g starts less than LayerSpacing=%g below the bottom %g of the band above\n%s", comp, b[k+1], c.LS, bottom[k], describeLayout(r.L)))
				break
			}
		}
	}
	for _, e := range r.L.Edges {
		if e.FromID == e.ToID {
			continue
		}
		f, t := v.node[v.idx[e.FromID]], v.node[v.idx[e.ToID]]
		if f.Y == t.Y {
			x.Violate("C03:flat-edge", &c, nil, fmt.Sprintf("edge %s->%s joins two nodes of the same band (y=%g)\n%s", e.FromID, e.ToID, f.Y, describeLayout(r.L)))
			continue
		}
		up := f.Y > t.Y
		if up != e.ArrowHeadStart {
			x.Violate("C03:arrow-direction", &c, nil, fmt.Sprintf("edge %s->%s runs upward=%v but ArrowHeadStart=%v\n%s", e.FromID, e.ToID, up, e.ArrowHeadStart, describeLayout(r.L)))
		}
		if a.DAG && up {
			x.Violate("C03:upward-in-dag", &c, nil, fmt.Sprintf("acyclic input but edge %s->%s runs upward\n%s", e.FromID, e.ToID, describeLayout(r.L)))
		}
	}
}

// ---------------------------------------------------------------- C04

func oracleC04(x *Ctx, in Input, a *Analysis, c Cfg, r *Res) {
	v := newView(in, a, c, r.L)
	if !v.nodesComplete() {
		return
	}
	ns := c.NS * math.Ldexp(1, c.Scale)
	// "same band" is read off equal Y. With LayerSpacing = 0 and a band of zero height two consecutive bands
	// legitimately share their Y (see C03), so equal Y identifies a band only if that cannot happen.
	bandsDistinct := c.LS > 0
	if !bandsDistinct {
		bandsDistinct = true
		for _, nd := range v.node {
			if nd.H <= 0 {
				bandsDistinct = false
			}
		}
	}
	for i, nd := range v.node {
		if !finite(nd.X) || !finite(nd.Y) || nd.X < 0 || nd.Y < 0 {
			x.Violate("C04:coords", &c, nil, fmt.Sprintf("node %q has coordinates (%g,%g)", in.Name(i), nd.X, nd.Y))
			return
		}
	}
	for i := range v.node {
		for j := i + 1; j < len(v.node); j++ {
			p, q := v.node[i], v.node[j]
			if p.X < q.X+q.W && q.X < p.X+p.W && p.Y < q.Y+q.H && q.Y < p.Y+p.H {
				x.Violate("C04:overlap", &c, nil, fmt.Sprintf("nodes %q and %q overlap\n%s", in.Name(i), in.Name(j), describeLayout(r.L)))
				return
			}
			gap := math.Max(q.X-(p.X+p.W), p.X-(q.X+q.W))
			if a.Comp[i] == a.Comp[j] {
				if bandsDistinct && p.Y == q.Y && gap < ns {
					x.Violate("C04:spacing", &c, nil, fmt.Sprintf("nodes %q and %q of the same band are %g apart, NodeSpacing=%g\n%s", in.Name(i), in.Name(j), gap, ns, describeLayout(r.L)))
					return
				}
			} else if gap < ns {
				x.Violate("C04:component-spacing", &c, nil, fmt.Sprintf("nodes %q and %q of different components are horizontally %g apart, NodeSpacing=%g\n%s", in.Name(i), in.Name(j), gap, ns, describeLayout(r.L)))
				return
			}
		}
	}
}

// ---------------------------------------------------------------- C05

func oracleC05(x *Ctx, in Input, a *Analysis, c Cfg, r *Res) (judged int) {
	v := newView(in, a, c, r.L)
	if !v.nodesComplete() {
		return
	}
	for _, e := range r.L.Edges {
		if e.FromID == e.ToID {
			continue
		}
		for _, p := range e.Points {
			if !finite(p[0]) || !finite(p[1]) {
				x.Violate("C05:non-finite", &c, nil, fmt.Sprintf("edge %s->%s has a non-finite route point %v", e.FromID, e.ToID, p))
				return
			}
		}
		f, t := v.node[v.idx[e.FromID]], v.node[v.idx[e.ToID]]
		if f.Y == t.Y {
			continue // flat edge: C03's business, no upper/lower endpoint exists
		}
		if len(e.Points) < 2 {
			x.Violate("C05:unrouted", &c, nil, fmt.Sprintf("edge %s->%s has %d points", e.FromID, e.ToID, len(e.Points)))
			continue
		}
		judged++
		upper, lower := f, t
		if f.Y > t.Y {
			upper, lower = t, f
		}
		p0, pn := e.Points[0], e.Points[len(e.Points)-1]
		if p0 != [2]float64{upper.X + upper.W/2, upper.Y + upper.H} {
			x.Violate("C05:start-point", &c, nil, fmt.Sprintf("edge %s->%s: first point %v is not the bottom-centre (%g,%g) of upper node %q\n%s", e.FromID, e.ToID, p0, upper.X+upper.W/2, upper.Y+upper.H, upper.ID, describeLayout(r.L)))
		}
		if pn != [2]float64{lower.X + lower.W/2, lower.Y} {
			x.Violate("C05:end-point", &c, nil, fmt.Sprintf("edge %s->%s: last point %v is not the top-centre (%g,%g) of lower node %q\n%s", e.FromID, e.ToID, pn, lower.X+lower.W/2, lower.Y, lower.ID, describeLayout(r.L)))
		}
		// the arrowhead end is at ToID's node
		toIsUpper := t.Y < f.Y
		if e.ArrowHeadStart != toIsUpper {
			x.Violate("C05:arrowhead", &c, nil, fmt.Sprintf("edge %s->%s: ArrowHeadStart=%v but the target node is the %s endpoint\n%s", e.FromID, e.ToID, e.ArrowHeadStart, map[bool]string{true: "upper (first point)", false: "lower (last point)"}[toIsUpper], describeLayout(r.L)))
		}
	}
	return
}

// ---------------------------------------------------------------- C06

func oracleC06(x *Ctx, in Input, a *Analysis, c Cfg, r *Res) (long int) {
	v := newView(in, a, c, r.L)
	if !v.nodesComplete() {
		return
	}
	v.computeBands()
	usedExtra := make([]bool, len(v.extra))
	for _, e := range r.L.Edges {
		if e.FromID == e.ToID {
			continue
		}
		fi, ti := v.idx[e.FromID], v.idx[e.ToID]
		f, t := v.node[fi], v.node[ti]
		if f.Y == t.Y {
			continue // C03's business
		}
		span := v.bandIndex(fi) - v.bandIndex(ti)
		if span < 0 {
			span = -span
		}
		if span > 1 {
			long++
		}
		switch c.P5 {
		case 1:
			if len(e.Points) != 2 {
				x.Violate("C06:straight-points", &c, nil, fmt.Sprintf("straight route of %s->%s has %d points", e.FromID, e.ToID, len(e.Points)))
			}
		case 2:
			if len(e.Points) != span+1 {
				x.Violate("C06:polyline-bends", &c, nil, fmt.Sprintf("polyline route of %s->%s spans %d bands but has %d points (want %d)\n%s", e.FromID, e.ToID, span, len(e.Points), span+1, describeLayout(r.L)))
			}
			// one bend per intermediate band: the j-th bend lies within the vertical extent of the j-th band below the upper endpoint
			if len(e.Points) == span+1 && span > 1 {
				comp := a.Comp[fi]
				top := v.bandIndex(fi)
				if b := v.bandIndex(ti); b < top {
					top = b
				}
				for j := 1; j < span; j++ {
					bt := v.bands[comp][top+j]
					bb := bt
					for k, nd := range v.node {
						if a.Comp[k] == comp && nd.Y == bt && nd.Y+nd.H > bb {
							bb = nd.Y + nd.H
						}
					}
					if y := e.Points[j][1]; y < bt || y > bb {
						x.Violate("C06:bend-outside-band", &c, nil, fmt.Sprintf("bend %d of %s->%s at y=%g is not inside its intermediate band [%g,%g]\n%s", j, e.FromID, e.ToID, y, bt, bb, describeLayout(r.L)))
						break
					}
				}
			}
			for i := 1; i < len(e.Points); i++ {
				if e.Points[i][1] < e.Points[i-1][1] {
					x.Violate("C06:polyline-upward", &c, nil, fmt.Sprintf("polyline route of %s->%s goes upward: %v", e.FromID, e.ToID, e.Points))
					break
				}
			}
			if len(e.Points) > 2 {
				for _, p := range e.Points[1 : len(e.Points)-1] {
					if c.SizeAware() {
						for i, nd := range v.node {
							if p[0] > nd.X && p[0] < nd.X+nd.W && p[1] > nd.Y && p[1] < nd.Y+nd.H {
								x.Violate("C06:bend-inside-node", &c, nil, fmt.Sprintf("bend %v of %s->%s lies strictly inside node %q\n%s", p, e.FromID, e.ToID, in.Name(i), describeLayout(r.L)))
							}
						}
					}
					if c.Virt {
						// the helper node of a bend: same x, in the band the bend lies in (the closest band top at or above the bend)
						best := -1
						for k, nd := range v.extra {
							if !usedExtra[k] && nd.X+nd.W/2 == p[0] && p[1] >= nd.Y && (best < 0 || nd.Y > v.extra[best].Y) {
								best = k
							}
						}
						if best >= 0 {
							usedExtra[best] = true
						} else {
							x.Violate("C06:virtual-node-at-bend", &c, nil, fmt.Sprintf("no output virtual node at bend %v of %s->%s\n%s", p, e.FromID, e.ToID, describeLayout(r.L)))
						}
					}
				}
			}
		case 3:
			for i := 1; i < len(e.Points); i++ {
				if e.Points[i][0] != e.Points[i-1][0] && e.Points[i][1] != e.Points[i-1][1] {
					x.Violate("C06:ortho-slanted", &c, nil, fmt.Sprintf("orthogonal route of %s->%s has a slanted segment %v-%v\n%s", e.FromID, e.ToID, e.Points[i-1], e.Points[i], describeLayout(r.L)))
					break
				}
			}
		case 4:
			if len(e.Points) == 0 || len(e.Points)%4 != 0 {
				x.Violate("C06:spline-4k", &c, nil, fmt.Sprintf("spline route of %s->%s has %d control points", e.FromID, e.ToID, len(e.Points)))
			} else {
				for i := 4; i < len(e.Points); i += 4 {
					if e.Points[i] != e.Points[i-1] {
						x.Violate("C06:spline-join", &c, nil, fmt.Sprintf("spline pieces of %s->%s do not join: %v vs %v", e.FromID, e.ToID, e.Points[i-1], e.Points[i]))
						break
					}
				}
			}
		}
	}
	if c.Virt && c.P5 == 2 {
		for k, u := range usedExtra {
			if !u {
				x.Violate("C06:virtual-node-without-bend", &c, nil, fmt.Sprintf("output virtual node %q at (%g,%g) is not at any bend\n%s", v.extra[k].ID, v.extra[k].X, v.extra[k].Y, describeLayout(r.L)))
				break
			}
		}
	}
	return
}

package verifrt

import (
	"bytes"
	"fmt"
	"hash/fnv"
	"runtime"
	"sort"
	"strconv"
	"strings"
	"sync"
)

// ---- cooperative scheduler (sched build): every access to a package-level variable of the module under test is a
// scheduling point. Exactly one thread runs between two grants, so the explorer owns the interleaving.

// AccessHook is installed while a scheduled run is in progress. Access is called by generated code before every
// statement that mentions a package-level variable of the module.
var AccessHook func(id string, w int)

func Access(id string, w int) {
	if h := AccessHook; h != nil {
		h(id, w)
	}
}

type req struct {
	tid  int
	id   string
	w    int
	done bool
	res  string
}

// Step is one scheduling decision.
type Step struct {
	Key     string // state key before the decision
	Enabled []int  // canonical order: running thread first if still enabled, then ascending ids
	Chosen  int    // thread id
	Var     string // the access the chosen thread performs next
	W       bool
}

type SchedResult struct {
	Trace    []Step
	Races    map[string]string // variable -> description of two conflicting accesses by different threads
	Result   []string
	Deadlock string // non-empty: no thread was enabled although some were still running
}

// splitSync parses "sync:<object>.<Method>" / "sync-ret:<object>.<Method>" access ids (emitted around calls of methods
// of sync objects that are rooted at package-level variables).
func splitSync(id string) (kind, obj, method string) {
	for _, k := range []string{"sync-ret:", "sync:"} {
		if strings.HasPrefix(id, k) {
			rest := id[len(k):]
			if i := strings.LastIndexByte(rest, '.'); i > 0 {
				return k[:len(k)-1], rest[:i], rest[i+1:]
			}
			return k[:len(k)-1], rest, ""
		}
	}
	return "", "", ""
}

func goid() int64 {
	var buf [64]byte
	n := runtime.Stack(buf[:], false)
	f := bytes.Fields(buf[:n])
	id, _ := strconv.ParseInt(string(f[1]), 10, 64)
	return id
}

// RunSched executes the bodies as threads under the scheduler, following choices (indices into the canonical
// enabled list; beyond the prefix the default choice 0 = stay on the running thread / lowest id).
// snap renders the global state (part of the state key). A choice out of range is a replay divergence: panic.
func RunSched(bodies []func() string, choices []int, snap func() string) *SchedResult {
	n := len(bodies)
	var mu sync.Mutex
	gids := map[int64]int{}
	reqs := make(chan req)
	grant := make([]chan struct{}, n)
	states := make([]*State, n)
	for i := range grant {
		grant[i] = make(chan struct{})
		states[i] = NewState(nil)
	}
	res := &SchedResult{Races: map[string]string{}, Result: make([]string, n)}
	AccessHook = func(id string, w int) {
		mu.Lock()
		tid, ok := gids[goid()]
		mu.Unlock()
		if !ok {
			return // not a scheduled thread (the explorer itself)
		}
		reqs <- req{tid: tid, id: id, w: w}
		<-grant[tid]
	}
	defer func() { AccessHook = nil }()
	for t := 0; t < n; t++ {
		go func(t int) {
			mu.Lock()
			gids[goid()] = t
			mu.Unlock()
			Access("<start>", 0)
			var r string
			func() {
				defer func() {
					if e := recover(); e != nil {
						r = fmt.Sprint("PANIC ", e)
					}
				}()
				r = bodies[t]()
			}()
			reqs <- req{tid: t, done: true, res: r}
		}(t)
	}
	pending := map[int]req{}
	live := n
	count := make([]int, n)
	rh := make([]uint64, n)
	type acc struct {
		tid    int
		w      bool
		locks  map[string]bool
		inOnce map[string]bool // the sync.Once objects inside whose Do(f) this access happened
	}
	seen := map[string][]acc{}
	// model of the sync objects the threads use through package-level variables: a Lock is enabled only while the mutex is
	// free (so the real Lock never blocks under the scheduler), locksets feed the race rule, Once.Do excludes other callers
	owner := map[string]int{}           // mutex -> writer tid
	readers := map[string]map[int]int{} // rwmutex -> tid -> count
	inDo := map[string]int{}            // once -> tid currently inside Do
	onceDone := map[string]bool{}
	lockset := make([]map[string]bool, n)
	passedDo := make([]map[string]bool, n) // thread -> the Once objects whose Do has returned in that thread
	for i := range lockset {
		lockset[i] = map[string]bool{}
		passedDo[i] = map[string]bool{}
	}
	enabled := func(r req) bool {
		kind, obj, m := splitSync(r.id)
		if kind != "sync" {
			return true
		}
		switch m {
		case "Lock":
			if o, ok := owner[obj]; ok && o != r.tid {
				return false
			}
			for t, c := range readers[obj] {
				if t != r.tid && c > 0 {
					return false
				}
			}
		case "RLock":
			if o, ok := owner[obj]; ok && o != r.tid {
				return false
			}
		case "Do":
			if t, ok := inDo[obj]; ok && t != r.tid {
				return false
			}
		}
		return true
	}
	granted := func(r req) {
		kind, obj, m := splitSync(r.id)
		switch {
		case kind == "sync" && (m == "Lock" || m == "TryLock"):
			if _, ok := owner[obj]; !ok {
				owner[obj] = r.tid
				lockset[r.tid][obj] = true
			}
		case kind == "sync" && m == "Unlock":
			delete(owner, obj)
			delete(lockset[r.tid], obj)
		case kind == "sync" && m == "RLock":
			if readers[obj] == nil {
				readers[obj] = map[int]int{}
			}
			readers[obj][r.tid]++
			lockset[r.tid][obj] = true
		case kind == "sync" && m == "RUnlock":
			if readers[obj][r.tid]--; readers[obj][r.tid] <= 0 {
				delete(readers[obj], r.tid)
				delete(lockset[r.tid], obj)
			}
		case kind == "sync" && m == "Do":
			if !onceDone[obj] {
				inDo[obj] = r.tid
			}
		case kind == "sync-ret" && m == "Do":
			if t, ok := inDo[obj]; ok && t == r.tid {
				delete(inDo, obj)
				onceDone[obj] = true
			}
			// the completion of f happens before the return of every Do: what f wrote is ordered before what this thread does next
			passedDo[r.tid][obj] = true
		}
	}
	last := -1
	waitFor := n
	for live > 0 {
		for waitFor > 0 {
			r := <-reqs
			waitFor--
			if r.done {
				live--
				res.Result[r.tid] = r.res
			} else {
				pending[r.tid] = r
			}
		}
		if live == 0 {
			break
		}
		var en []int
		for t, r := range pending {
			if enabled(r) {
				en = append(en, t)
			}
		}
		if len(en) == 0 {
			res.Deadlock = fmt.Sprintf("no thread is enabled: %d thread(s) wait for a lock or a sync.Once held by a thread that is itself blocked (mutex owners %v)", len(pending), owner)
			break
		}
		sort.Ints(en)
		for i, t := range en {
			if t == last {
				copy(en[1:i+1], en[:i])
				en[0] = t
			}
		}
		// the rendered global state can be kilobytes (lazily built tables): the keys carry its 64-bit hash
		gh := fnv.New64a()
		gh.Write([]byte(snap()))
		g := gh.Sum64()
		key := fmt.Sprint(count, rh, g, owner, inDo)
		ci := 0
		if len(res.Trace) < len(choices) {
			ci = choices[len(res.Trace)]
			if ci >= len(en) {
				panic("verifrt: replay divergence: scheduling choice out of range")
			}
		}
		t := en[ci]
		r := pending[t]
		delete(pending, t)
		res.Trace = append(res.Trace, Step{Key: key, Enabled: append([]int(nil), en...), Chosen: t, Var: r.id, W: r.w == 1})
		granted(r)
		if r.id != "<start>" && !strings.HasPrefix(r.id, "sync:") && !strings.HasPrefix(r.id, "sync-ret:") && !strings.HasPrefix(r.id, "yield:") {
			common := func(a map[string]bool) bool {
				for k := range a {
					if lockset[t][k] {
						return true
					}
				}
				return false
			}
			ordered := func(a map[string]bool) bool {
				for o := range a {
					if passedDo[t][o] {
						return true
					}
				}
				return false
			}
			for _, a := range seen[r.id] {
				if a.tid != t && (a.w || r.w == 1) && !common(a.locks) && !ordered(a.inOnce) {
					res.Races[r.id] = fmt.Sprintf("thread %d (write=%v) and thread %d (write=%v) both access %s with no common lock held", a.tid, a.w, t, r.w == 1, r.id)
				}
			}
			ls := map[string]bool{}
			for k := range lockset[t] {
				ls[k] = true
			}
			io := map[string]bool{}
			for o, who := range inDo {
				if who == t {
					io[o] = true
				}
			}
			seen[r.id] = append(seen[r.id], acc{t, r.w == 1, ls, io})
		}
		count[t]++
		h := fnv.New64a()
		fmt.Fprint(h, rh[t], r.id, g)
		rh[t] = h.Sum64()
		last = t
		waitFor = 1
		cur = states[t] // the granted thread's private map-order state
		grant[t] <- struct{}{}
	}
	cur = NewState(nil)
	return res
}

// Command super is the supervisor of the autog model-checking harness: it instruments and builds the worker
// from /repo's current working tree, shards the property's space over worker processes, watches them
// (fatal crashes, hangs, memory), attributes and confirms abnormal ends, runs the conformance/replay pass
// against the uninstrumented build, matches known findings, and writes the evidence file.
package main

import (
	"bufio"
	"bytes"
	"context"
	"crypto/sha1"
	"encoding/binary"
	"encoding/json"
	"fmt"
	"os"
	"os/exec"
	"path/filepath"
	"regexp"
	"runtime"
	"sort"
	"strconv"
	"strings"
	"sync"
	"time"

	"vmc/instr"
)

var (
	verifDir    = envOr("VERIF_DIR", "/verif")
	repoDir     = envOr("VERIF_REPO", "/repo")
	evidenceDir = envOr("VERIF_EVIDENCE_DIR", filepath.Join(verifDir, "evidence"))
	replayDir   = envOr("VERIF_REPLAY_DIR", filepath.Join(verifDir, "replays"))
	workRoot    = envOr("VERIF_WORK", filepath.Join(verifDir, ".work"))
)

func envOr(k, d string) string {
	if v := os.Getenv(k); v != "" {
		return v
	}
	return d
}

type propSpec struct {
	Mode       string // overlay mode of the main pass
	Validate   bool   // run the conformance pass against the plain build
	Rule       string // what makes a case non-trivial
	Assume     []string
	BudgetS    float64
	QuickDeadS float64
	ThorDeadS  float64
	Race       bool
	// FatalIsViolation: an abnormal end of the worker process (hang, OOM, stack overflow) while evaluating a case is a
	// violation of THIS property (C01, C19, C20); otherwise it is C01's business and the case is recorded as blocked.
	FatalIsViolation bool
}

var props = map[string]propSpec{}

type Violation struct {
	Prop   string          `json:"property"`
	Class  string          `json:"class"`
	Pass   string          `json:"pass"`
	Input  json.RawMessage `json:"input"`
	Cfg    json.RawMessage `json:"cfg,omitempty"`
	Extra  json.RawMessage `json:"extra,omitempty"`
	Detail string          `json:"detail"`
	GoTest string          `json:"go_test,omitempty"`
	Tier   string          `json:"tier,omitempty"`
}

type Stats struct {
	States       int64                       `json:"states"`
	Transitions  int64                       `json:"transitions"`
	Evaluations  int64                       `json:"evaluations"`
	Nontrivial   int64                       `json:"nontrivial"`
	Blocked      int64                       `json:"blocked"`
	BlockedClass map[string]int64            `json:"blocked_class"`
	Validated    int64                       `json:"validated"`
	Violations   int64                       `json:"violations"`
	Known        map[string]int64            `json:"known"`
	KnownWitness map[string]json.RawMessage  `json:"known_witness"`
	ViolClass    map[string]int64            `json:"viol_class"`
	Hist         map[string]map[string]int64 `json:"hist"`
	Samples      []json.RawMessage           `json:"samples"`
	Uncontrolled map[string]int64            `json:"uncontrolled"`
	PassBounds   []string                    `json:"pass_bounds"`
	PassStates   map[string]int64            `json:"pass_states"`
	PassEvals    map[string]int64            `json:"pass_evals"`
	DeadlineHit  bool                        `json:"deadline_hit"`
	DistinctObs  int64                       `json:"distinct_obs"`
	DistinctCap  bool                        `json:"distinct_capped"`
	Notes        []string                    `json:"notes"`
	boundCount   map[string]int
}

func (a *Stats) add(b *Stats) {
	a.States += b.States
	if b.Transitions > a.Transitions {
		a.Transitions = b.Transitions
	}
	a.Evaluations += b.Evaluations
	a.Nontrivial += b.Nontrivial
	a.Blocked += b.Blocked
	a.Validated += b.Validated
	a.Violations += b.Violations
	addMap(&a.BlockedClass, b.BlockedClass)
	addMap(&a.Known, b.Known)
	addMap(&a.ViolClass, b.ViolClass)
	addMap(&a.Uncontrolled, b.Uncontrolled)
	addMap(&a.PassStates, b.PassStates)
	addMap(&a.PassEvals, b.PassEvals)
	for _, pb := range b.PassBounds {
		if a.boundCount == nil {
			a.boundCount = map[string]int{}
		}
		if a.boundCount[pb] == 0 {
			a.PassBounds = append(a.PassBounds, pb)
		}
		a.boundCount[pb]++
	}
	for k, w := range b.KnownWitness {
		if a.KnownWitness == nil {
			a.KnownWitness = map[string]json.RawMessage{}
		}
		if _, ok := a.KnownWitness[k]; !ok {
			a.KnownWitness[k] = w
		}
	}
	for h, m := range b.Hist {
		if a.Hist == nil {
			a.Hist = map[string]map[string]int64{}
		}
		mm := a.Hist[h]
		addMap(&mm, m)
		a.Hist[h] = mm
	}
	// one or two samples from every worker, up to 12: first cases and seed-selected later ones
	for i, s := range b.Samples {
		if len(a.Samples) < 12 && (i == 0 && len(a.Samples) < 2 || i > 0) {
			a.Samples = append(a.Samples, s)
		}
	}
	a.DeadlineHit = a.DeadlineHit || b.DeadlineHit
	a.DistinctCap = a.DistinctCap || b.DistinctCap
	for _, n := range b.Notes {
		if len(a.Notes) < 20 {
			a.Notes = append(a.Notes, n)
		}
	}
}

func addMap(a *map[string]int64, b map[string]int64) {
	if len(b) == 0 {
		return
	}
	if *a == nil {
		*a = map[string]int64{}
	}
	for k, v := range b {
		(*a)[k] += v
	}
}

type KnownFinding struct {
	ID       string           `json:"id"`
	Property string           `json:"property"`
	Status   string           `json:"status"`
	Class    string           `json:"class"`
	Cfg      map[string][]int `json:"cfg,omitempty"`
	Pred     string           `json:"pred,omitempty"`
	Text     string           `json:"text"`
	Commit   string           `json:"commit,omitempty"`
}

func loadKnown() []KnownFinding {
	b, err := os.ReadFile(filepath.Join(verifDir, "known_findings.json"))
	if err != nil {
		return nil
	}
	var f struct {
		Findings []KnownFinding `json:"findings"`
	}
	if err := json.Unmarshal(b, &f); err != nil {
		die(2, "known_findings.json: %v", err)
	}
	return f.Findings
}

// matchKnownFatal: same rule as the worker's matcher, for violations the worker did not live to report.
func matchKnownFatal(kfs []KnownFinding, prop, class string, cfg json.RawMessage, preds map[string]bool) string {
	var c map[string]any
	json.Unmarshal(cfg, &c)
	for _, k := range kfs {
		if k.Status != "known" || k.Property != prop || (k.Pred != "" && !preds[k.Pred]) {
			continue
		}
		if ok, _ := regexp.MatchString(k.Class, class); !ok {
			continue
		}
		ok := true
		for f, allowed := range k.Cfg {
			v, has := c[f].(float64)
			if !has {
				ok = false
				break
			}
			found := false
			for _, a := range allowed {
				if a == int(v) {
					found = true
				}
			}
			if !found {
				ok = false
			}
		}
		if ok {
			return k.ID
		}
	}
	return ""
}

func die(code int, f string, a ...any) {
	fmt.Fprintf(os.Stderr, "vmc: "+f+"\n", a...)
	os.Exit(code)
}

func goEnv() []string {
	return append(os.Environ(), "GOFLAGS=-mod=mod", "GOPROXY=off", "GOSUMDB=off", "GOTOOLCHAIN=local")
}

type workerRun struct {
	id       int
	stats    Stats // cumulative over incarnations
	obs      map[uint64]struct{}
	viols    []Violation
	mism     []json.RawMessage
	fatals   []fatal
	restarts int
}

type fatal struct {
	Kind, Stuck string
	Pass        int
	Input       int64
	Cfg         int
	StderrTail  string
}

type runCfg struct {
	prop, tier string
	seed       int64
	bin        string
	workDir    string
	nworkers   int
	budget     float64
	deadline   float64
	extra      []string
}

// runWorkers runs the sharded exploration and returns per-worker results.
func runWorkers(rc runCfg, tag string) []*workerRun {
	res := make([]*workerRun, rc.nworkers)
	var wg sync.WaitGroup
	start := time.Now()
	for w := 0; w < rc.nworkers; w++ {
		wg.Add(1)
		go func(w int) {
			defer wg.Done()
			wr := &workerRun{id: w, obs: map[uint64]struct{}{}}
			res[w] = wr
			slot := filepath.Join(rc.workDir, fmt.Sprintf("slot-%s-%d", tag, w))
			os.Remove(slot)
			after := ""
			for {
				args := []string{"-prop", rc.prop, "-tier", rc.tier, "-shard", fmt.Sprintf("%d/%d", w, rc.nworkers), "-slot", slot,
					"-known", filepath.Join(verifDir, "known_findings.json"), "-budget", fmt.Sprint(rc.budget), "-seed", fmt.Sprint(rc.seed)}
				if after != "" {
					args = append(args, "-after", after)
				}
				if rc.deadline > 0 {
					left := rc.deadline - time.Since(start).Seconds()
					if left < 1 {
						left = 1
					}
					args = append(args, "-deadline", fmt.Sprint(left))
				}
				args = append(args, rc.extra...)
				for i, a := range args {
					args[i] = strings.ReplaceAll(a, "%W", strconv.Itoa(w))
				}
				cmd := exec.Command(rc.bin, args...)
				cmd.Env = append(os.Environ(), "GOMAXPROCS=2", "GOTRACEBACK=all")
				var stderr tailBuf
				cmd.Stderr = &stderr
				out, _ := cmd.StdoutPipe()
				if err := cmd.Start(); err != nil {
					die(2, "start worker: %v", err)
				}
				var last, final *Stats
				var xline map[string]any
				sc := bufio.NewScanner(out)
				sc.Buffer(make([]byte, 1<<20), 1<<28)
				for sc.Scan() {
					var m struct {
						T     string          `json:"t"`
						V     *Violation      `json:"v"`
						Stats *Stats          `json:"stats"`
						Obs   []uint64        `json:"obs"`
						Raw   json.RawMessage `json:"-"`
					}
					line := append([]byte(nil), sc.Bytes()...)
					if err := json.Unmarshal(line, &m); err != nil {
						continue
					}
					switch m.T {
					case "V":
						m.V.Tier = rc.tier
						wr.viols = append(wr.viols, *m.V)
					case "P":
						last = m.Stats
					case "S":
						final = m.Stats
						for _, h := range m.Obs {
							wr.obs[h] = struct{}{}
						}
					case "M":
						wr.mism = append(wr.mism, line)
					case "X":
						json.Unmarshal(line, &xline)
					}
				}
				err := cmd.Wait()
				if final != nil && err == nil {
					wr.stats.add(final)
					return
				}
				// abnormal end of the worker process
				if last != nil {
					wr.stats.add(last)
				}
				f := fatal{Kind: "crash", StderrTail: stderr.String()}
				if xline != nil {
					f.Kind, _ = xline["reason"].(string)
					f.Stuck, _ = xline["stuck"].(string)
				} else {
					f.Kind, f.Stuck = classifyFatal(stderr.String())
				}
				sb, rerr := os.ReadFile(slot)
				if rerr != nil || len(sb) < 40 || binary.LittleEndian.Uint64(sb[32:]) == 0 {
					die(2, "worker %d died before its first unit (exit: %v)\n%s", w, err, stderr.String())
				}
				f.Pass = int(binary.LittleEndian.Uint32(sb[0:]))
				f.Input = int64(binary.LittleEndian.Uint64(sb[8:]))
				f.Cfg = int(binary.LittleEndian.Uint32(sb[16:]))
				wr.fatals = append(wr.fatals, f)
				wr.restarts++
				if wr.restarts > 400 {
					// give up on the rest of this shard (reported: not exhaustive) rather than on the whole check
					wr.stats.DeadlineHit = true
					wr.stats.Notes = append(wr.stats.Notes, fmt.Sprintf("worker %d abandoned its shard after 400 abnormal ends", w))
					return
				}
				after = fmt.Sprintf("%d:%d:%d", f.Pass, f.Input, f.Cfg)
			}
		}(w)
	}
	wg.Wait()
	return res
}

type tailBuf struct {
	mu  sync.Mutex
	buf []byte
}

func (t *tailBuf) Write(p []byte) (int, error) {
	t.mu.Lock()
	t.buf = append(t.buf, p...)
	if len(t.buf) > 1<<18 {
		// keep head (fatal message) and tail
		t.buf = append(t.buf[:1<<16], t.buf[len(t.buf)-(1<<16):]...)
	}
	t.mu.Unlock()
	return len(p), nil
}
func (t *tailBuf) String() string { t.mu.Lock(); defer t.mu.Unlock(); return string(t.buf) }

var reFrame = regexp.MustCompile(`(?m)^github\.com/nulab/autog/(internal/)?(.+)\([^()]*\)$`)
var reClosure = regexp.MustCompile(`(\.func[0-9]+|\.[0-9]+)+$`)

func classifyFatal(stderr string) (kind, stuck string) {
	kind = "crash"
	switch {
	case strings.Contains(stderr, "stack overflow") || strings.Contains(stderr, "stack exceeds"):
		kind = "stack-overflow"
	case strings.Contains(stderr, "out of memory") || strings.Contains(stderr, "cannot allocate memory"):
		kind = "out-of-memory"
	case strings.Contains(stderr, "fatal error:"):
		i := strings.Index(stderr, "fatal error:")
		l := stderr[i:]
		if j := strings.IndexByte(l, '\n'); j > 0 {
			l = l[:j]
		}
		kind = strings.ReplaceAll(strings.TrimSpace(strings.TrimPrefix(l, "fatal error:")), " ", "-")
	}
	stuck = "?"
	for _, m := range reFrame.FindAllStringSubmatch(stderr, -1) {
		fn := m[2]
		if strings.HasPrefix(fn, "verifx/") || strings.HasPrefix(fn, "verifrt") {
			continue
		}
		stuck = reClosure.ReplaceAllString(fn, "")
		break
	}
	return
}

func main() {
	if len(os.Args) < 2 {
		die(2, "usage: vmc check <prop> <tier> | replay <file> | build <mode> <out> | mutants ...")
	}
	switch os.Args[1] {
	case "check":
		if len(os.Args) < 4 {
			die(2, "usage: vmc check <prop> <quick|thorough>")
		}
		os.Exit(check(os.Args[2], os.Args[3]))
	case "replay":
		os.Exit(replay(os.Args[2]))
	case "warm":
		for _, m := range []string{"plain", "mapctl", "sched"} {
			buildWorker("warm", m, false)
		}
	case "instr":
		info, err := instr.Generate(repoDir, os.Args[2], os.Args[3], filepath.Join(verifDir, "vmc", "_src"))
		if err != nil {
			die(2, "%v", err)
		}
		b, _ := json.MarshalIndent(info, "", " ")
		fmt.Println(string(b))
	default:
		die(2, "unknown command %q", os.Args[1])
	}
}

func buildWorker(prop, mode string, race bool) (string, *instr.Info) {
	work := filepath.Join(workRoot, prop)
	os.MkdirAll(work, 0o755)
	info, err := instr.Generate(repoDir, mode, filepath.Join(work, "overlay-"+mode), filepath.Join(verifDir, "vmc", "_src"))
	if err != nil {
		die(2, "instrument (%s): %v", mode, err)
	}
	bin := filepath.Join(work, "worker-"+mode)
	if race {
		bin += "-race"
	}
	if err := instr.Build(repoDir, info, bin, race); err != nil {
		die(2, "build worker (%s): %v", mode, err)
	}
	return bin, info
}

func check(prop, tier string) int {
	t0 := time.Now()
	spec, ok := props[prop]
	if !ok {
		die(2, "unknown property %s", prop)
	}
	if t := os.Getenv("VERIF_TIER"); t == "quick" || t == "thorough" {
		tier = t
	}
	seed := int64(1)
	if s := os.Getenv("VERIF_SEED"); s != "" {
		seed, _ = strconv.ParseInt(s, 10, 64)
	}
	nw := runtime.NumCPU()
	if s := os.Getenv("VERIF_WORKERS"); s != "" {
		nw, _ = strconv.Atoi(s)
	}
	work := filepath.Join(workRoot, prop)
	os.MkdirAll(work, 0o755)
	os.MkdirAll(evidenceDir, 0o755)
	kfs := loadKnown()

	bin, info := buildWorker(prop, spec.Mode, false)
	dead := spec.QuickDeadS
	if tier == "thorough" {
		dead = spec.ThorDeadS
	}
	if s := os.Getenv("VERIF_DEADLINE"); s != "" {
		dead, _ = strconv.ParseFloat(s, 64)
	}
	rc := runCfg{prop: prop, tier: tier, seed: seed, bin: bin, workDir: work, nworkers: nw, budget: spec.BudgetS, deadline: dead}
	if spec.Validate {
		rc.extra = []string{"-valout", filepath.Join(work, "val-%W.txt")}
	}
	runs := runWorkers(rc, "main")

	var total Stats
	obs := map[uint64]struct{}{}
	var viols []Violation
	var fatals []fatal
	for _, r := range runs {
		total.add(&r.stats)
		for h := range r.obs {
			obs[h] = struct{}{}
		}
		viols = append(viols, r.viols...)
		fatals = append(fatals, r.fatals...)
	}

	// ---- fatal ends: attribute, confirm in fresh processes, classify
	var harnessErrors []string
	blockedFatal := map[string]int64{}
	confirmedClass := map[string]int{}
	var transient []string
	for _, f := range fatals {
		loc := locate(bin, prop, tier, f)
		if loc == nil {
			harnessErrors = append(harnessErrors, fmt.Sprintf("could not locate unit %d:%d:%d of a %s", f.Pass, f.Input, f.Cfg, f.Kind))
			continue
		}
		class := "fatal:" + f.Kind + ":" + f.Stuck
		v := Violation{Prop: prop, Class: class, Pass: loc.Pass, Input: loc.Input, Cfg: loc.Cfg, Tier: tier,
			Detail: fmt.Sprintf("worker process ended abnormally (%s) in %s\n%s", f.Kind, f.Stuck, tail(f.StderrTail, 1500))}
		if spec.FatalIsViolation {
			if kf := matchKnownFatal(kfs, prop, class, loc.Cfg, loc.Preds); kf != "" {
				addMap(&total.Known, map[string]int64{kf: 1})
				if total.KnownWitness == nil {
					total.KnownWitness = map[string]json.RawMessage{}
				}
				if _, ok := total.KnownWitness[kf]; !ok {
					w, _ := json.Marshal(map[string]any{"input": loc.Input, "cfg": loc.Cfg, "class": class})
					total.KnownWitness[kf] = w
				}
				continue
			}
		}
		// Every abnormal end is re-run alone in fresh processes (tripled budgets) before it is believed: a stalled machine
		// (load, a paused VM) makes the watchdog fire on perfectly healthy units. Once a class has been confirmed three
		// times, further members are taken on the strength of those.
		if confirmedClass[class] < 3 {
			needs := 1
			if spec.FatalIsViolation {
				needs = 3
			}
			tmp := filepath.Join(work, fmt.Sprintf("confirm-%d-%d-%d.json", f.Pass, f.Input, f.Cfg))
			vb, _ := json.Marshal(v)
			os.WriteFile(tmp, vb, 0o644)
			rep, foundViol := 0, false
			for i := 0; i < needs; i++ {
				ctx, cancel := context.WithTimeout(context.Background(), time.Duration(spec.BudgetS*4+30)*time.Second)
				cmd := exec.CommandContext(ctx, bin, "-prop", prop, "-tier", tier, "-replay", tmp, "-anyviol", "-known", filepath.Join(verifDir, "known_findings.json"),
					"-budget", fmt.Sprint(spec.BudgetS*3), "-bscale", "3")
				cmd.Env = append(os.Environ(), "GOMAXPROCS=2")
				err := cmd.Run()
				cancel()
				code := 0
				if err != nil {
					code = 99
					if ee, ok := err.(*exec.ExitError); ok {
						code = ee.ExitCode()
					}
				}
				if code != 0 && code != 1 {
					rep++
					continue
				}
				foundViol = code == 1
				break
			}
			if rep < needs {
				transient = append(transient, fmt.Sprintf("%s at unit %d:%d:%d (pass %s) did not reproduce alone in a fresh process (%d/%d): attributed to a stalled machine, the unit was judged by the re-run", class, f.Pass, f.Input, f.Cfg, loc.Pass, rep, needs))
				if foundViol {
					v.Class = "found-in-isolated-rerun"
					v.Detail = "the unit ended abnormally inside the sharded run, completed when re-run alone, and the re-run reported oracle violations: replay the file to see them"
					total.Violations++
					addMap(&total.ViolClass, map[string]int64{v.Class: 1})
					viols = append(viols, v)
				}
				continue
			}
			confirmedClass[class]++
		}
		if !spec.FatalIsViolation {
			if blockedFatal[class] < 3 {
				fmt.Printf("NOTE: blocked by a fatal end (%s) — C01's business: pass=%s input=%s cfg=%s\n", class, loc.Pass, clip(string(loc.Input), 200), loc.Cfg)
			}
			blockedFatal[class]++
			continue
		}
		total.Violations++
		addMap(&total.ViolClass, map[string]int64{class: 1})
		viols = append(viols, v)
	}
	for c, n := range blockedFatal {
		total.Blocked += n
		addMap(&total.BlockedClass, map[string]int64{c: n})
	}

	// ---- conformance / replay-twice pass: plain build, fresh processes, validation slice
	var mismatches []json.RawMessage
	if spec.Validate && len(harnessErrors) == 0 {
		merged := filepath.Join(work, "val-all.txt")
		mf, _ := os.Create(merged)
		for w := 0; w < nw; w++ {
			b, _ := os.ReadFile(filepath.Join(work, fmt.Sprintf("val-%d.txt", w)))
			mf.Write(b)
		}
		mf.Close()
		pbin, _ := buildWorker(prop, "plain", false)
		vrc := rc
		vrc.bin = pbin
		vrc.extra = []string{"-valin", merged}
		vrc.deadline = 0
		if dead > 0 {
			vrc.deadline = dead
		}
		vruns := runWorkers(vrc, "val")
		for _, r := range vruns {
			total.Validated += r.stats.Validated
			mismatches = append(mismatches, r.mism...)
		}
	}

	// ---- C15: the separate free-running -race pass (sampling; a cross-check the technique requires, not the deciding step)
	raceNote := ""
	if spec.Race {
		rbin, _ := buildWorker(prop, "plain", true)
		cmd := exec.Command(rbin, "-racepass")
		cmd.Env = append(os.Environ(), "GORACE=halt_on_error=0")
		out, err := cmd.CombinedOutput()
		nraces := strings.Count(string(out), "WARNING: DATA RACE")
		nmis := strings.Count(string(out), "RACEPASS-MISMATCH")
		raceNote = fmt.Sprintf("free-running -race pass: %d data race reports, %d result mismatches (%v)", nraces, nmis, err)
		if m := regexp.MustCompile(`RACEPASS calls=(\d+)`).FindStringSubmatch(string(out)); m != nil {
			raceNote += ", " + m[0]
		} else if nraces == 0 {
			harnessErrors = append(harnessErrors, "race pass did not complete: "+tail(string(out), 800))
		}
		if nraces > 0 || nmis > 0 {
			v := Violation{Prop: prop, Class: "C15:free-running-race-pass", Pass: "race-pass", Input: json.RawMessage(`{"e":[]}`), Tier: tier,
				Detail: raceNote + "\n" + tail(string(out), 3000)}
			viols = append(viols, v)
			total.Violations++
			addMap(&total.ViolClass, map[string]int64{v.Class: 1})
		}
		fmt.Println("NOTE:", raceNote)
	}

	// ---- verdict
	exit := 0
	sort.Slice(viols, func(i, j int) bool { return len(viols[i].Input) < len(viols[j].Input) })
	printed := map[string]int{}
	var replayPaths []string
	for _, v := range viols {
		if printed[v.Class] >= 3 {
			continue
		}
		printed[v.Class]++
		p := writeReplay(v)
		replayPaths = append(replayPaths, p)
		fmt.Printf("VIOLATION property=%s replay=%s\n", prop, p)
		fmt.Printf("  class=%s pass=%s input=%s cfg=%s\n  %s\n", v.Class, v.Pass, clip(string(v.Input), 300), v.Cfg, strings.ReplaceAll(firstLines(v.Detail, 12), "\n", "\n  "))
		exit = 1
	}
	if total.Violations > 0 && exit == 0 {
		exit = 1 // counted but not emitted (should not happen)
		fmt.Printf("VIOLATION property=%s replay=%s\n", prop, "(none: violation counted without record)")
	}
	for _, k := range kfs {
		if k.Property == prop && k.Status == "known" {
			fmt.Printf("KNOWN-FINDING: property=%s %s [%s] (matched %d cases this run)\n", prop, k.Text, k.ID, total.Known[k.ID])
		}
	}
	// conformance mismatches are C07's violations; other checks only report them
	if len(mismatches) > 0 {
		if prop == "C07" {
			for i, m := range mismatches {
				if i >= 3 {
					break
				}
				var mm struct {
					Input json.RawMessage `json:"input"`
					Cfg   json.RawMessage `json:"cfg"`
					Pass  string          `json:"pass"`
				}
				json.Unmarshal(m, &mm)
				v := Violation{Prop: prop, Class: "C07:fresh-process-differs", Pass: mm.Pass, Input: mm.Input, Cfg: mm.Cfg, Tier: tier,
					Detail: "the uninstrumented build in a fresh process returned a different layout than the canonical-order run"}
				p := writeReplay(v)
				fmt.Printf("VIOLATION property=%s replay=%s\n  class=%s input=%s cfg=%s\n", prop, p, v.Class, v.Input, v.Cfg)
			}
			exit = 1
		} else {
			fmt.Printf("NOTE: %d executions of the uninstrumented build differ from the canonical-order run (map-order dependence: C07's business), e.g. %s\n", len(mismatches), mismatches[0])
		}
	}
	if total.Blocked > 0 && !spec.FatalIsViolation {
		fmt.Printf("NOTE: %d case(s) could not be judged for %s because Layout ended abnormally (C01's business): %v\n", total.Blocked, prop, total.BlockedClass)
	}
	for _, h := range harnessErrors {
		fmt.Println("HARNESS-ERROR:", h)
	}

	// ---- evidence
	exhaustive := !total.DeadlineHit && len(info.UncontrolledSites) == 0 && len(total.Uncontrolled) == 0 && len(harnessErrors) == 0
	cov := map[string]any{
		"states":                        max64(total.States, 1),
		"transitions":                   max64(total.Transitions, 1),
		"traces_validated_against_impl": total.Validated,
		"evaluations":                   total.Evaluations,
		"distinct_nontrivial":           total.Nontrivial,
		"distinct_observations":         len(obs),
		"distinct_observations_capped":  total.DistinctCap,
		"rule":                          spec.Rule,
		"samples":                       total.Samples,
		"exhaustive":                    exhaustive,
		"bounds":                        completedBounds(&total, nw),
		"states_per_pass":               total.PassStates,
		"executions_per_pass":           total.PassEvals,
		"caps_hit":                      total.Notes,
		"blocked_by_C01":                total.Blocked,
		"blocked_classes":               total.BlockedClass,
		"known_finding_matches":         total.Known,
		"known_finding_witnesses":       total.KnownWitness,
		"violation_classes":             total.ViolClass,
		"behaviour_histograms":          total.Hist,
		"uncontrolled_sites":            append(info.UncontrolledSites, keys(total.Uncontrolled)...),
		"map_range_sites_controlled":    info.MapRangeSites,
		"conformance_mismatches":        len(mismatches),
		"fatal_ends":                    len(fatals),
		"harness_errors":                harnessErrors,
		"transient_abnormal_ends":       transient,
		"workers":                       nw,
		"build_mode":                    spec.Mode,
		"replays":                       replayPaths,
	}
	if raceNote != "" {
		cov["race_pass"] = raceNote
	}
	if len(total.Samples) == 0 {
		cov["samples"] = []any{"(no sample recorded)"}
	}
	if extra := extraEvidence(prop, info); extra != nil {
		for k, v := range extra {
			cov[k] = v
		}
	}
	for h, m := range total.Hist {
		if len(m) == 1 {
			if _, only0 := m["0"]; only0 {
				fmt.Printf("WARNING: behaviour histogram %q has all its mass at 0 — the space does not reach that behaviour\n", h)
			}
		}
	}
	ev := map[string]any{
		"property_id": prop,
		"tier":        tier,
		"seed":        seed,
		"level":       "model_checking",
		"coverage":    cov,
		"assumptions": spec.Assume,
		"wall_s":      time.Since(t0).Seconds(),
		"violations":  total.Violations,
	}
	b, _ := json.MarshalIndent(ev, "", " ")
	evPath := filepath.Join(evidenceDir, prop+".json")
	if err := os.WriteFile(evPath, b, 0o644); err != nil {
		die(2, "write evidence: %v", err)
	}
	fmt.Printf("%s %s: states=%d transitions=%d executions=%d nontrivial=%d distinct-observations=%d validated=%d blocked=%d known-matches=%d violations=%d exhaustive=%v wall=%.1fs\n",
		prop, tier, total.States, total.Transitions, total.Evaluations, total.Nontrivial, len(obs), total.Validated, total.Blocked, sum(total.Known), total.Violations, exhaustive, time.Since(t0).Seconds())
	if len(harnessErrors) > 0 && exit == 0 {
		return 2
	}
	return exit
}

// completedBounds lists the passes that every worker completed (a pass cut short by the deadline in any worker is not listed).
func completedBounds(t *Stats, nw int) []string {
	out := []string{}
	for _, pb := range t.PassBounds {
		if t.boundCount[pb] >= nw {
			out = append(out, pb)
		}
	}
	return out
}

func extraEvidence(prop string, info *instr.Info) map[string]any {
	if prop == "C15" {
		return map[string]any{"package_level_variables": info.Globals}
	}
	return nil
}

func sum(m map[string]int64) (s int64) {
	for _, v := range m {
		s += v
	}
	return
}

func keys(m map[string]int64) []string {
	var k []string
	for s := range m {
		k = append(k, s)
	}
	sort.Strings(k)
	return k
}

func max64(a, b int64) int64 {
	if a > b {
		return a
	}
	return b
}

func tail(s string, n int) string {
	if len(s) > n {
		return s[:n/2] + "\n...\n" + s[len(s)-n/2:]
	}
	return s
}

func clip(s string, n int) string {
	if len(s) > n {
		return s[:n] + "…"
	}
	return s
}

func firstLines(s string, n int) string {
	l := strings.Split(s, "\n")
	if len(l) > n {
		l = append(l[:n], "...")
	}
	return strings.Join(l, "\n")
}

type located struct {
	Pass  string          `json:"pass"`
	Input json.RawMessage `json:"input"`
	Cfg   json.RawMessage `json:"cfg"`
	Preds map[string]bool `json:"preds"`
}

func locate(bin, prop, tier string, f fatal) *located {
	cmd := exec.Command(bin, "-prop", prop, "-tier", tier, "-locate", fmt.Sprintf("%d:%d:%d", f.Pass, f.Input, f.Cfg))
	out, err := cmd.Output()
	if err != nil {
		return nil
	}
	for _, line := range bytes.Split(out, []byte("\n")) {
		var l struct {
			T string `json:"t"`
			located
		}
		if json.Unmarshal(line, &l) == nil && l.T == "L" {
			return &l.located
		}
	}
	return nil
}

func writeReplay(v Violation) string {
	dir := replayDir
	os.MkdirAll(dir, 0o755)
	b, _ := json.MarshalIndent(v, "", " ")
	h := sha1.Sum(append(append([]byte(v.Class), v.Input...), v.Cfg...))
	p := filepath.Join(dir, fmt.Sprintf("%s-%x.json", v.Prop, h[:5]))
	os.WriteFile(p, b, 0o644)
	return p
}

func replay(path string) int {
	b, err := os.ReadFile(path)
	if err != nil {
		die(2, "%v", err)
	}
	var v Violation
	if err := json.Unmarshal(b, &v); err != nil {
		die(2, "%v", err)
	}
	spec := props[v.Prop]
	mode := spec.Mode
	if v.Class == "C07:fresh-process-differs" {
		// the canonical-order run once, the uninstrumented build in 8 fresh processes
		cbin, _ := buildWorker(v.Prop, "mapctl", false)
		pbin, _ := buildWorker(v.Prop, "plain", false)
		obs := func(bin string) string {
			out, _ := exec.Command(bin, "-prop", v.Prop, "-obs", path).Output()
			return strings.TrimSpace(string(out))
		}
		h0 := obs(cbin)
		differ := 0
		fmt.Println("canonical order (instrumented build):", h0)
		for i := 0; i < 8; i++ {
			h := obs(pbin)
			fmt.Printf("fresh process %d (uninstrumented build): %s\n", i, h)
			if h != h0 {
				differ++
			}
		}
		fmt.Printf("replay: %d of 8 fresh processes returned a different layout than the canonical-order run\n", differ)
		if differ > 0 {
			return 1
		}
		return 0
	}
	bin, _ := buildWorker(v.Prop, mode, false)
	tier := v.Tier
	if tier == "" {
		tier = "quick"
	}
	cmd := exec.Command(bin, "-prop", v.Prop, "-tier", tier, "-replay", path, "-known", filepath.Join(verifDir, "known_findings.json"))
	cmd.Stdout, cmd.Stderr = os.Stdout, os.Stderr
	if err := cmd.Run(); err != nil {
		if ee, ok := err.(*exec.ExitError); ok {
			return ee.ExitCode()
		}
		return 2
	}
	return 0
}

package main

import (
	"fmt"
	"math"
	"strings"

	"github.com/nulab/autog/graph"
)

// ---- field-exact comparison of two layouts under a node-name map, a scale factor and a horizontal offset

type layoutCmp struct {
	rename func(id string) string // maps IDs of the reference layout (nil = identity)
	scale  float64
	dx     float64
}

func (lc layoutCmp) diff(ref, got graph.Layout) string {
	rn := lc.rename
	if rn == nil {
		rn = func(s string) string { return s }
	}
	k := lc.scale
	if k == 0 {
		k = 1
	}
	if len(ref.Nodes) != len(got.Nodes) {
		return fmt.Sprintf("node count %d vs %d", len(ref.Nodes), len(got.Nodes))
	}
	if len(ref.Edges) != len(got.Edges) {
		return fmt.Sprintf("edge count %d vs %d", len(ref.Edges), len(got.Edges))
	}
	for i := range ref.Nodes {
		a, b := ref.Nodes[i], got.Nodes[i]
		if rn(a.ID) != b.ID {
			return fmt.Sprintf("node #%d: ID %q vs %q", i, rn(a.ID), b.ID)
		}
		if a.X*k+lc.dx != b.X || a.Y*k != b.Y || a.W*k != b.W || a.H*k != b.H {
			return fmt.Sprintf("node %q: expected x=%g y=%g w=%g h=%g, got x=%g y=%g w=%g h=%g", b.ID, a.X*k+lc.dx, a.Y*k, a.W*k, a.H*k, b.X, b.Y, b.W, b.H)
		}
	}
	for i := range ref.Edges {
		a, b := ref.Edges[i], got.Edges[i]
		if rn(a.FromID) != b.FromID || rn(a.ToID) != b.ToID {
			return fmt.Sprintf("edge #%d: %q->%q vs %q->%q", i, rn(a.FromID), rn(a.ToID), b.FromID, b.ToID)
		}
		if a.ArrowHeadStart != b.ArrowHeadStart {
			return fmt.Sprintf("edge #%d %q->%q: ArrowHeadStart %v vs %v", i, b.FromID, b.ToID, a.ArrowHeadStart, b.ArrowHeadStart)
		}
		if len(a.Points) != len(b.Points) {
			return fmt.Sprintf("edge #%d %q->%q: %d vs %d points", i, b.FromID, b.ToID, len(a.Points), len(b.Points))
		}
		for j := range a.Points {
			if a.Points[j][0]*k+lc.dx != b.Points[j][0] || a.Points[j][1]*k != b.Points[j][1] {
				return fmt.Sprintf("edge #%d %q->%q point %d: expected (%g,%g), got (%g,%g)", i, b.FromID, b.ToID, j, a.Points[j][0]*k+lc.dx, a.Points[j][1]*k, b.Points[j][0], b.Points[j][1])
			}
		}
	}
	return ""
}

// ------------------------------------------------------------ C17: scale equivariance

func evalC17(grid []Cfg, factors []int) func(x *Ctx, in Input) {
	return func(x *Ctx, in Input) {
		for _, c := range grid {
			c := c
			if !x.Unit(&c) {
				continue
			}
			r0 := x.Run(in, c, nil)
			if x.InValidationSlice() || x.valMode {
				x.Validate(r0.Ser())
			}
			if !r0.OK() {
				x.Blocked(r0)
				continue
			}
			for _, k := range factors {
				ck := c
				ck.Scale = k
				rk := x.Run(in, ck, nil)
				x.st.Transitions++
				if !rk.OK() {
					x.Violate("C17:scaled-run-fails", &ck, nil, "the unscaled call returns but the scaled call ends in "+rk.Class())
					continue
				}
				if d := (layoutCmp{scale: math.Ldexp(1, k)}).diff(r0.L, rk.L); d != "" {
					x.Violate("C17:not-equivariant", &ck, nil, fmt.Sprintf("Layout(2^%d x sizes, spacings) != 2^%d x Layout(sizes, spacings): %s\nunscaled:\n%sscaled:\n%s", k, k, d, describeLayout(r0.L), describeLayout(rk.L)))
				}
			}
			if in.M() >= 2 {
				x.Nontrivial(r0.Ser())
			}
		}
		x.Sample(map[string]any{"input": in.E})
	}
}

// ------------------------------------------------------------ C08: IDs are opaque

var advPool = []string{"V1", "V2", "V3", "NE0", "NE1", "NE2", "", "n0 ", strings.Repeat("長いノード名é∑", 30)}

// renamings enumerates the deviation-bounded family: every injective assignment that renames <= d nodes into
// the adversarial pool (the others keep their plain name), plus "all nodes renamed" in every rotation of the pool.
func renamings(n, d int) [][]string {
	var out [][]string
	base := func() []string { return append([]string(nil), nodeNames[:n]...) }
	for i := 0; i < n; i++ {
		for _, a := range advPool {
			nm := base()
			nm[i] = a
			out = append(out, nm)
		}
	}
	if d >= 2 {
		for i := 0; i < n; i++ {
			for j := i + 1; j < n; j++ {
				for p, a := range advPool {
					for q, b := range advPool {
						if p == q {
							continue
						}
						nm := base()
						nm[i], nm[j] = a, b
						out = append(out, nm)
					}
				}
			}
		}
	}
	if n <= len(advPool) {
		for r := 0; r < len(advPool); r++ {
			nm := base()
			for i := range nm {
				nm[i] = advPool[(i+r)%len(advPool)]
			}
			out = append(out, nm)
		}
	}
	return out
}

func evalC08(grid []Cfg, d int) func(x *Ctx, in Input) {
	return func(x *Ctx, in Input) {
		n := in.N()
		rns := renamings(n, d)
		for _, c := range grid {
			c := c
			if !x.Unit(&c) {
				continue
			}
			r0 := x.Run(in, c, nil)
			if x.InValidationSlice() || x.valMode {
				x.Validate(r0.Ser())
			}
			if !r0.OK() {
				x.Blocked(r0)
				continue
			}
			for _, nm := range rns {
				in2 := Input{E: in.E, Names: nm}
				r := x.Run(in2, c, nil)
				x.st.Transitions++
				mp := map[string]string{}
				for i := 0; i < n; i++ {
					mp[nodeNames[i]] = nm[i]
				}
				if !r.OK() {
					x.Violate("C08:renamed-run-fails", &c, map[string]any{"names": nm}, fmt.Sprintf("with plain names Layout returns, with names %q it ends in %s: %s", nm, r.Class(), r.Panic))
					continue
				}
				rename := func(id string) string {
					if v, ok := mp[id]; ok {
						return v
					}
					return id
				}
				if df := (layoutCmp{rename: rename}).diff(r0.L, r.L); df != "" {
					x.Violate("C08:layout-depends-on-names", &c, map[string]any{"names": nm}, fmt.Sprintf("renaming the nodes to %q changes the layout: %s\nplain names:\n%srenamed:\n%s", short(nm), df, describeLayout(r0.L), describeLayout(r.L)))
				}
			}
			if n >= 2 {
				x.Nontrivial(r0.Ser())
			}
		}
		x.Sample(map[string]any{"input": in.E, "renamings": len(rns)})
	}
}

func short(nm []string) []string {
	out := make([]string, len(nm))
	for i, s := range nm {
		if len(s) > 12 {
			s = s[:12] + "…"
		}
		out[i] = s
	}
	return out
}

// ------------------------------------------------------------ C09: components independent, side by side

// unionSpace enumerates ordered k-tuples of connected graphs from pool (with repetition) and ALL order-preserving
// interleavings of their edge lists. Nodes of part p are named "<a+p><i>" so that the parts can be told apart.
func unionSpace(pools [][]Input) func(emit func(Input)) {
	return func(emit func(Input)) {
		k := len(pools)
		parts := make([]Input, k)
		var choose func(p int)
		choose = func(p int) {
			if p == k {
				// all interleavings
				pos := make([]int, k)
				var e []int // union edge list over (part, node) pairs encoded as part*1000+node
				var rec func()
				rec = func() {
					done := true
					for q := 0; q < k; q++ {
						if pos[q] < parts[q].M() {
							done = false
							i := pos[q]
							e = append(e, q*1000+parts[q].E[2*i], q*1000+parts[q].E[2*i+1])
							pos[q]++
							rec()
							pos[q]--
							e = e[:len(e)-2]
						}
					}
					if done {
						emit(namedUnion(e))
					}
				}
				rec()
				return
			}
			for _, g := range pools[p] {
				parts[p] = g
				choose(p + 1)
			}
		}
		choose(0)
	}
}

func namedUnion(e []int) Input {
	mp := map[int]int{}
	var names []string
	s := make([]int, len(e))
	for j, x := range e {
		if _, ok := mp[x]; !ok {
			mp[x] = len(mp)
			names = append(names, fmt.Sprintf("%c%d", 'a'+x/1000, x%1000))
		}
		s[j] = mp[x]
	}
	return Input{E: s, Names: names}
}

// part extracts the sub-input made of the edges whose nodes carry the given prefix, in order.
func (in Input) part(prefix byte) Input {
	var e []int
	for i := 0; i < in.M(); i++ {
		if in.Names[in.E[2*i]][0] == prefix {
			e = append(e, in.E[2*i], in.E[2*i+1])
		}
	}
	mp := map[int]int{}
	var names []string
	s := make([]int, len(e))
	for j, x := range e {
		if _, ok := mp[x]; !ok {
			mp[x] = len(mp)
			names = append(names, in.Names[x])
		}
		s[j] = mp[x]
	}
	return Input{E: s, Names: names}
}

func restrict(l graph.Layout, prefix byte) graph.Layout {
	var out graph.Layout
	for _, n := range l.Nodes {
		if len(n.ID) > 0 && n.ID[0] == prefix {
			out.Nodes = append(out.Nodes, n)
		}
	}
	for _, e := range l.Edges {
		if len(e.FromID) > 0 && e.FromID[0] == prefix {
			out.Edges = append(out.Edges, e)
		}
	}
	return out
}

func evalC09(grid []Cfg) func(x *Ctx, in Input) {
	return func(x *Ctx, in Input) {
		prefixes := map[byte]bool{}
		var order []byte
		for _, nm := range in.Names {
			if !prefixes[nm[0]] {
				prefixes[nm[0]] = true
				order = append(order, nm[0])
			}
		}
		for _, c := range grid {
			c := c
			if !x.Unit(&c) {
				continue
			}
			ru := x.Run(in, c, nil)
			if x.InValidationSlice() || x.valMode {
				x.Validate(ru.Ser())
			}
			if !ru.OK() {
				x.Blocked(ru)
				continue
			}
			type ext struct{ lo, hi float64 }
			var exts []ext
			for _, p := range order {
				solo := in.part(p)
				rs := x.Run(solo, c, nil)
				x.st.Transitions++
				for _, pv := range rs.Pivots {
					if pv.Pending {
						x.Hist("solo-runs-cut-short-by-the-pivot-budget", pv.Maxitr)
					}
				}
				if !rs.OK() {
					x.Blocked(rs)
					continue
				}
				got := restrict(ru.L, p)
				if len(got.Nodes) == 0 || len(rs.L.Nodes) == 0 {
					x.Violate("C09:component-missing", &c, nil, fmt.Sprintf("component %c has no nodes in the output", p))
					continue
				}
				dx := got.Nodes[0].X - rs.L.Nodes[0].X
				if df := (layoutCmp{dx: dx}).diff(rs.L, got); df != "" {
					x.Violate("C09:not-a-translate", &c, nil, fmt.Sprintf("component %c inside the union is not its solo layout translated horizontally by %g: %s\nsolo:\n%sunion:\n%s", p, dx, df, describeLayout(rs.L), describeLayout(ru.L)))
				}
				e := ext{math.Inf(1), math.Inf(-1)}
				for _, n := range got.Nodes {
					e.lo = math.Min(e.lo, n.X)
					e.hi = math.Max(e.hi, n.X+n.W)
				}
				exts = append(exts, e)
			}
			if c.SizeAware() {
				for i := range exts {
					for j := i + 1; j < len(exts); j++ {
						gap := math.Max(exts[j].lo-exts[i].hi, exts[i].lo-exts[j].hi)
						if gap < c.NS {
							x.Violate("C09:not-side-by-side", &c, nil, fmt.Sprintf("horizontal extents of components %c and %c are %g apart (NodeSpacing %g)\n%s", order[i], order[j], gap, c.NS, describeLayout(ru.L)))
						}
					}
				}
			}
			x.Nontrivial(ru.Ser())
		}
		x.Sample(map[string]any{"input": in.E, "names": in.Names})
	}
}

// padToNextSquare puts the connected graph a next to a path (a single self-looped node if one node is enough) that
// lifts the node count of the union to the next square; second = the padding's edges come first.
func padToNextSquare(a Input, second bool) Input {
	n := a.N()
	r := 1
	for (r+1)*(r+1) <= n {
		r++
	}
	k := (r+1)*(r+1) - n
	var ea, eb []int
	for i := 0; i < a.M(); i++ {
		ea = append(ea, a.E[2*i], a.E[2*i+1])
	}
	if k == 1 {
		eb = []int{1000, 1000}
	}
	for i := 0; i+1 < k; i++ {
		eb = append(eb, 1000+i, 1000+i+1)
	}
	if second {
		return namedUnion(append(append([]int(nil), eb...), ea...))
	}
	return namedUnion(append(append([]int(nil), ea...), eb...))
}

// evalC09Budget: the input is ONE connected graph. It is laid out alone first; if the layerer's simplex was cut short
// by its pivot budget (reported by hook H2), the graph is padded to the next square and the union is checked like any
// other C09 input. Components whose simplex runs to completion cannot tell whose node count the budget was taken from,
// so they are counted and skipped. A recorded violation carries the union, which is evaluated directly on replay.
func evalC09Budget(grid []Cfg) func(x *Ctx, in Input) {
	inner := evalC09(grid)
	return func(x *Ctx, in Input) {
		if len(in.Names) > 0 {
			inner(x, in)
			return
		}
		cut := map[int]bool{}
		for _, c := range grid {
			c := c
			c.P5 = 0
			if !x.Unit(&c) {
				cut[c.TH] = true // locating or resuming after an abnormal end inside this input: walk every unit
				continue
			}
			r := x.Run(in, c, nil)
			if !r.OK() {
				x.Blocked(r)
				continue
			}
			for _, pv := range r.Pivots {
				if pv.Pending && pv.Pivots >= pv.Maxitr {
					cut[c.TH] = true
				}
			}
		}
		if len(cut) == 0 {
			x.Hist("components-whose-simplex-completes-within-the-budget", 1)
			return
		}
		x.Hist("components-cut-short-by-the-pivot-budget", in.N())
		for _, second := range []bool{false, true} {
			u := padToNextSquare(in, second)
			x.curInput = u
			inner(x, u)
		}
	}
}

func collect(sp func(emit func(Input))) []Input {
	var out []Input
	sp(func(in Input) { out = append(out, in) })
	return out
}

func init() {
	connF := func(in Input, a *Analysis) bool { return a.NComp == 1 }

	checks["C17"] = func(tier string) []*Pass {
		grid := gridSpec{P1: allP1, P2: allP2, P4: []int{0, 1, 2, 4, 5, 6, 7, 8}, P5: []int{1, 2, 3}, SZ: []int{1, 2}}.list()
		all := []int{-3, -2, -1, 1, 2, 3, 4, 5, 6}
		ends := []int{-3, 6}
		dq := tierPick(tier, 3, 4)
		return []*Pass{
			{Name: "G-all-factors", Space: spaceG(1, dq, 0, nil), Eval: evalC17(grid, all),
				Bound: fmt.Sprintf("all edge lists with <=%d edges x {greedy,dfs} x {ns,lp} x {sink,valign,packright,b&k x5} x {straight,polyline,ortho} x {fixed,per-node} x every factor 2^k, k in -3..6", dq)},
			{Name: "G-end-factors", Space: spaceG(dq+1, dq+1, 0, nil), Eval: evalC17(grid, ends),
				Bound: fmt.Sprintf("all edge lists with %d edges x the same grid x factors {2^-3, 2^6}", dq+1)},
			{Name: "macro-3", Space: spaceMacro(3, false), Eval: evalC17(gridSpec{P1: []int{0}, P2: []int{0}, P4: []int{0, 4}, P5: []int{2, 3}, SZ: []int{2}}.list(), ends),
				Bound: "every graph built by <=3 gadget insertions (shapes with up to 13 edges) x greedy x ns x {sink,bk} x {polyline,ortho} x per-node sizes x factors {2^-3, 2^6}"},
			{Name: "seeds", Space: spaceSeeded(seedWitnesses, 1), Eval: evalC17(grid, ends),
				Bound: "all states within 1 edit operation of the recorded witnesses x factors {2^-3, 2^6}"},
			{Name: "parallel-chains", Space: spaceList(thetaFamilies(tierPick(tier, 5, 4), tier == "thorough")),
				Eval:  evalC17(gridSpec{P1: []int{0}, P2: allP2, P4: []int{0, 4}, P5: []int{2, 3}, SZ: []int{2}}.list(), ends),
				Bound: "two paths with 1..5 edges each (thorough: three with 1..4) between a top and a bottom node + at most one extra node attached by two edges at every pair of nodes, 10 edge-list orders each (9..13 nodes: layerings with slack, long edges next to chains) x greedy x {ns,lp} x {sink,bk} x {polyline,ortho} x per-node sizes x factors {2^-3, 2^6}"},
		}
	}

	checks["C08"] = func(tier string) []*Pass {
		grid := append(gridSpec{P1: []int{0}, P2: allP2, P4: allP4, P5: []int{2}, SZ: []int{2}}.list(),
			gridSpec{P1: []int{1}, P2: []int{0}, P4: []int{3}, P5: []int{1, 2, 3}, SZ: []int{1}}.list()...)
		grid = append(grid, gridSpec{P1: []int{0}, P2: []int{0}, P4: []int{0, 3}, P5: []int{2}, SZ: []int{4}, Virt: []bool{true}}.list()...)
		ps := []*Pass{
			{Name: "G3-d2", Space: spaceG(1, 3, 0, nil), Eval: evalC08(grid, 2),
				Bound: "all edge lists with <=3 edges x every injective renaming of <=2 nodes into the adversarial pool {V1,V2,V3,NE0,NE1,NE2,\"\",\"n0 \",long Unicode} + all-nodes renamings in 9 rotations x {ns,lp} x 9 positioners x polyline (+ ns positioner x every router, + virtual-node output)"},
			{Name: "G4-d1", Space: spaceG(4, 4, 0, nil), Eval: evalC08(grid, 1),
				Bound: "all edge lists with 4 edges x every renaming of 1 node into the pool + all-nodes renamings x the same grid"},
		}
		ps = append(ps, &Pass{Name: "macro-2-d1", Space: spaceMacro(2, false), Eval: evalC08(gridSpec{P1: []int{0}, P2: allP2, P4: []int{0, 3}, P5: []int{2}, SZ: []int{2}}.list(), 1),
			Bound: "every graph built by <=2 gadget insertions (shapes with up to 9 edges) x every renaming of 1 node into the pool + all-nodes renamings x greedy x {ns,lp} x {sink,ns}"})
		if tier == "thorough" {
			ps = append(ps,
				&Pass{Name: "G4-d2", Space: spaceG(4, 4, 0, nil), Eval: evalC08(gridSpec{P1: []int{0}, P2: allP2, P4: []int{0, 3, 4}, P5: []int{2}, SZ: []int{2}}.list(), 2),
					Bound: "all edge lists with 4 edges x every renaming of <=2 nodes x {ns,lp} x {sink,ns,bk}"},
				&Pass{Name: "G5-d1", Space: spaceG(5, 5, 0, nil), Eval: evalC08(gridSpec{P1: []int{0}, P2: allP2, P4: []int{0, 3, 4}, P5: []int{2}, SZ: []int{2}}.list(), 1),
					Bound: "all edge lists with 5 edges x every renaming of 1 node x {ns,lp} x {sink,ns,bk}"})
		}
		return ps
	}

	checks["C09"] = func(tier string) []*Pass {
		grid := gridSpec{P1: allP1, P2: allP2, P4: allP4, P5: []int{2}, SZ: []int{1, 7}}.list()
		g1 := collect(spaceG(1, 1, 0, connF))
		g2 := collect(spaceG(1, 2, 0, connF))
		g3 := collect(spaceG(3, 3, 0, connF))
		ps := []*Pass{
			{Name: "pairs-G2xG2", Space: unionSpace([][]Input{g2, g2}), Eval: evalC09(grid),
				Bound: fmt.Sprintf("every ordered pair of connected graphs with <=2 edges (%d each, incl. the single self-looped node) x ALL order-preserving interleavings of their edge lists x {greedy,dfs} x {ns,lp} x 9 positioners x {fixed, per-name} sizes", len(g2))},
			{Name: "pairs-G2xG2-routers", Space: unionSpace([][]Input{g2, g2}), Eval: evalC09(gridSpec{P1: []int{0}, P2: []int{0}, P4: []int{0, 1}, P5: []int{1, 3, 4}, SZ: []int{1, 7}}.list()),
				Bound: "the same pairs and interleavings x greedy x ns x {sink,valign} x {straight, ortho, splines} x {fixed, per-name} sizes (route points are shifted with their component too)"},
			{Name: "pairs-G3xG1", Space: spaceConcat(unionSpace([][]Input{g3, g1}), unionSpace([][]Input{g1, g3})), Eval: evalC09(grid),
				Bound: fmt.Sprintf("every connected graph with 3 edges (%d) paired with every 1-edge graph, both orders, all interleavings", len(g3))},
			{Name: "triples-G1", Space: unionSpace([][]Input{g2[:min(len(g2), 6)], g1, g2[:min(len(g2), 6)]}), Eval: evalC09(grid),
				Bound: "triples of small connected graphs (cumulative shift needs three components), all interleavings"},
		}
		// richer components (crossings, long edges, wide layers) in two interleavings: sequential and alternating —
		// where state leaking from one pipeline pass into the next has something to act on
		rich := []Input{
			relabel([]int{0, 2, 0, 3, 1, 2, 1, 3}),                   // K2,2
			relabel([]int{0, 3, 1, 2, 0, 2, 1, 3}),                   // K2,2, crossing edge order
			relabel([]int{0, 1, 0, 2, 1, 3, 2, 3, 0, 3}),             // diamond with a long edge
			relabel([]int{0, 1, 1, 2, 2, 3, 0, 3, 0, 2, 1, 3}),       // K4 as a DAG
			relabel([]int{0, 3, 0, 4, 1, 3, 1, 5, 2, 4, 2, 5}),       // 3x3 bipartite cycle
			relabel([]int{0, 1, 1, 2, 2, 0, 2, 3, 3, 1}),             // cycles
			relabel([]int{0, 1, 0, 2, 0, 3, 1, 4, 2, 4, 3, 4, 0, 4}), // fan with a long edge
			relabel([]int{0, 0, 0, 1, 1, 2, 0, 2, 2, 2}),             // self-loops and a long edge
		}
		ps = append(ps, &Pass{Name: "pairs-rich", Eval: evalC09(gridSpec{P1: []int{0}, P2: allP2, P4: allP4, P5: []int{2}, SZ: []int{1, 7}}.list()),
			Space: func(emit func(Input)) {
				for _, a := range rich {
					for _, b := range rich {
						var seq, alt []int
						for i := 0; i < a.M(); i++ {
							seq = append(seq, a.E[2*i], a.E[2*i+1])
						}
						for i := 0; i < b.M(); i++ {
							seq = append(seq, 1000+b.E[2*i], 1000+b.E[2*i+1])
						}
						for i := 0; i < max(a.M(), b.M()); i++ {
							if i < a.M() {
								alt = append(alt, a.E[2*i], a.E[2*i+1])
							}
							if i < b.M() {
								alt = append(alt, 1000+b.E[2*i], 1000+b.E[2*i+1])
							}
						}
						emit(namedUnion(seq))
						emit(namedUnion(alt))
					}
				}
			},
			Bound: "every ordered pair of 8 richer connected graphs (K2,2, K4, bipartite cycle, long edges, cycles, self-loops) in 2 interleavings (sequential, alternating) x greedy x {ns,lp} x 9 positioners x {fixed, per-name} sizes"})
		ps = append(ps, &Pass{Name: "pairs-rich-routers", Eval: evalC09(gridSpec{P1: []int{0}, P2: []int{0}, P4: []int{0, 1}, P5: []int{1, 3, 4}, SZ: []int{1}}.list()),
			Space: ps[len(ps)-1].Space,
			Bound: "the same pairs of richer components x greedy x ns x {sink,valign} x {straight, ortho, splines} x fixed sizes"})
		// size thresholds: a component that is LARGE in some measure (nodes, nodes + edges, parallel edges: 16, 32, 64 and
		// their neighbours) next to each richer component, both orders — a decision taken for a big component (a fallback,
		// a different strategy, a grown buffer) must not stick to the components processed after it
		chain := func(n int) Input {
			var e []int
			for i := 0; i+1 < n; i++ {
				e = append(e, i, i+1)
			}
			return Input{E: e}
		}
		multi := func(k int) Input {
			var e []int
			for i := 0; i < k; i++ {
				e = append(e, 0, 1)
			}
			return Input{E: e}
		}
		kab := func(a, b int) Input {
			var e []int
			for i := 0; i < a; i++ {
				for j := 0; j < b; j++ {
					e = append(e, i, a+j)
				}
			}
			return Input{E: e}
		}
		var bigs, bigsSmall []Input
		for _, n := range []int{15, 16, 17, 31, 32, 33, 34, 63, 64, 65} {
			bigs = append(bigs, chain(n), multi(n))
		}
		bigs = append(bigs, kab(3, 5), kab(4, 4), kab(5, 5), kab(6, 6), kab(8, 8))
		for _, b := range bigs {
			if b.N() <= 40 && b.M() <= 64 {
				bigsSmall = append(bigsSmall, b)
			}
		}
		smalls := append(append([]Input(nil), rich...), relabel([]int{1, 0, 1, 2, 2, 3, 4, 2}), relabel([]int{2, 1, 0, 1, 0, 1}))
		bigSpace := func(bs []Input) func(emit func(Input)) {
			return func(emit func(Input)) {
				for _, b := range bs {
					for _, r := range smalls {
						var bf, rf []int
						for i := 0; i < b.M(); i++ {
							bf = append(bf, b.E[2*i], b.E[2*i+1])
						}
						for i := 0; i < r.M(); i++ {
							bf = append(bf, 1000+r.E[2*i], 1000+r.E[2*i+1])
							rf = append(rf, r.E[2*i], r.E[2*i+1])
						}
						for i := 0; i < b.M(); i++ {
							rf = append(rf, 1000+b.E[2*i], 1000+b.E[2*i+1])
						}
						emit(namedUnion(bf))
						emit(namedUnion(rf))
					}
				}
			}
		}
		ps = append(ps,
			&Pass{Name: "big-next-to-rich", Space: bigSpace(bigs), Eval: evalC09(gridSpec{P1: []int{0}, P2: allP2, P4: []int{0, 1, 2, 4, 6}, P5: []int{2}, SZ: []int{1, 7}}.list()),
				Bound: fmt.Sprintf("%d large components (chains and bundles of parallel edges of 15..65, K(a,b) up to 8x8: sizes around 16, 32, 64 in nodes, nodes+edges and edges) x %d richer components, both orders x greedy x {ns,lp} x {sink,valign,packright,bk,bk1} x {fixed, per-name} sizes", len(bigs), len(smalls))},
			&Pass{Name: "big-next-to-rich-nsp", Space: bigSpace(bigsSmall), Eval: evalC09(gridSpec{P1: []int{0}, P2: allP2, P4: []int{3}, P5: []int{2}, SZ: []int{1, 7}}.list()),
				Bound: fmt.Sprintf("the %d large components with <=40 nodes and <=64 edges x %d richer components, both orders x greedy x {ns,lp} x NetworkSimplex positioner (documented as time-intensive beyond a few dozen nodes)", len(bigsSmall), len(smalls))})
		// iteration budgets that depend on the size of the graph: at thoroughness 1 (2) the layerer's pivot budget is
		// 1 (2) x isqrt(nodes of the component). Every component is padded with a second component that lifts the node count
		// of the union over the next square, so a budget taken from the union instead of the component shows as soon as the
		// component's simplex is cut short by its own budget (histogram: solo-runs-cut-short-by-the-pivot-budget)
		bg := gridSpec{P1: []int{0}, P2: []int{0}, P4: []int{1}, P5: []int{2}, SZ: []int{1}, TH: []int{1, 2}}.list()
		ps = append(ps,
			&Pass{Name: "budget-bound", Eval: evalC09Budget(bg),
				Space: spaceFilter(spaceConcat(spaceList(c10Families()), spaceList(thetaFamilies(4, false)), spaceMacro(3, false)), func(a Input) bool { return a.N() >= 4 }),
				Bound: "every family graph (K(a,b), ladders, chains with cross links, trees, diamonds, parallel chains) and every shape built by <=3 gadget insertions, with >=4 nodes: laid out alone at thoroughness {1,2}; those whose simplex is cut short by the budget are put next to a path that lifts the union's node count to the next square, both orders"},
			&Pass{Name: "budget-bound-dense", Eval: evalC09Budget(bg[:1]), Space: spaceDS(7, 8, tierPick(tier, 9, 14)),
				Bound: fmt.Sprintf("every connected simple DAG on 7 topologically labelled nodes with 8..%d edges at thoroughness 1 (budget 2 alone, 3 inside a union of 9 nodes): same procedure", tierPick(tier, 9, 14))})
		if tier == "thorough" {
			ps = append(ps, &Pass{Name: "budget-bound-dense-8", Eval: evalC09Budget(bg[:1]), Space: spaceDS(8, 10, 13),
				Bound: "every connected simple DAG on 8 topologically labelled nodes with 10..13 edges (101 M) at thoroughness 1 (budget 2 alone, 3 next to a self-looped node): same procedure"})
		}
		if tier == "thorough" {
			ps = append(ps,
				&Pass{Name: "pairs-G3xG3", Space: unionSpace([][]Input{g3, g3}), Eval: evalC09(gridSpec{P1: []int{0}, P2: allP2, P4: []int{0, 1, 3, 4}, P5: []int{2}, SZ: []int{7}}.list()),
					Bound: "every ordered pair of connected graphs with 3 edges x all 20 interleavings x greedy x {ns,lp} x {sink,valign,ns,bk}"},
				&Pass{Name: "triples-G2", Space: unionSpace([][]Input{g2, g2, g2}), Eval: evalC09(gridSpec{P1: []int{0}, P2: []int{0}, P4: []int{0, 3, 4}, P5: []int{2}, SZ: []int{7}}.list()),
					Bound: "every ordered triple of connected graphs with <=2 edges x all interleavings"})
		}
		return ps
	}
}

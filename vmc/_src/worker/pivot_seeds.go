package main

// pivotRichSeeds: states from which the pivot machinery of the network simplex is actually exercised. The exhaustive
// spaces (all edge lists with <= 7 edges, every DAG multiset D(6,<=10), D(7,<=9)) are pivot-poor: 12 of 81 million runs of
// the thorough tier make 4 or more pivots. These 19 connected DAGs (8..10 nodes, 11..15 edges, 4..5 pivots each on the
// pinned tree) were found ONCE by a seeded random search (3 million random DAG edge lists, kept: the first few per
// (pivot count, node count)) and are fixed data; what the check explores around them is exhaustive: every state within
// 1 (thorough 2) edit operations {delete, duplicate, reverse an edge, swap neighbours, add an edge}, and every rotation
// of each edge list ("start from non-initial states too").
var pivotRichSeeds = [][]int{
	{2, 5, 2, 3, 1, 8, 4, 5, 4, 7, 2, 6, 7, 8, 1, 0, 4, 1, 7, 3, 2, 1, 4, 6, 2, 8, 2, 7}, // 4 pivots, 9 nodes, 14 edges
	{3, 8, 1, 2, 7, 4, 7, 8, 9, 5, 1, 0, 3, 2, 5, 0, 2, 8, 0, 4, 3, 4, 1, 4, 1, 6, 9, 3}, // 4 pivots, 10 nodes, 14 edges
	{0, 1, 8, 0, 3, 0, 8, 6, 0, 7, 6, 1, 3, 5, 6, 4, 8, 5, 7, 4, 2, 1, 3, 4, 2, 7}, // 4 pivots, 9 nodes, 13 edges
	{1, 8, 4, 8, 6, 0, 6, 2, 1, 5, 6, 7, 1, 0, 7, 8, 1, 7, 4, 9, 1, 4, 1, 2, 1, 3, 5, 9}, // 4 pivots, 10 nodes, 14 edges
	{3, 4, 5, 4, 8, 5, 2, 1, 6, 3, 4, 1, 0, 1, 6, 0, 7, 8, 3, 2, 0, 2, 3, 5, 0, 4, 7, 0}, // 4 pivots, 9 nodes, 14 edges
	{5, 6, 8, 7, 0, 1, 3, 6, 3, 4, 5, 4, 5, 0, 4, 1, 2, 0, 2, 1, 8, 4, 8, 2, 5, 7, 3, 0}, // 4 pivots, 9 nodes, 14 edges
	{8, 7, 4, 8, 8, 0, 0, 1, 4, 6, 2, 5, 2, 6, 5, 1, 4, 3, 2, 1, 7, 1, 4, 0, 5, 7, 3, 0}, // 4 pivots, 9 nodes, 14 edges
	{1, 0, 1, 5, 2, 1, 2, 4, 5, 0, 2, 6, 4, 8, 4, 6, 7, 6, 4, 5, 7, 8, 3, 0, 1, 7, 3, 6}, // 4 pivots, 9 nodes, 14 edges
	{5, 3, 6, 3, 2, 4, 5, 4, 2, 3, 7, 9, 8, 4, 0, 1, 6, 4, 8, 0, 7, 1, 5, 0, 5, 9, 2, 1, 8, 7}, // 4 pivots, 10 nodes, 15 edges
	{0, 6, 2, 4, 8, 7, 5, 1, 6, 3, 8, 1, 2, 1, 2, 0, 7, 9, 9, 6, 5, 6, 8, 9, 7, 4, 2, 3, 0, 1}, // 4 pivots, 10 nodes, 15 edges
	{4, 7, 2, 3, 1, 3, 0, 5, 2, 5, 1, 0, 6, 2, 0, 3, 6, 4, 1, 7, 6, 5, 1, 2, 4, 2}, // 4 pivots, 8 nodes, 13 edges
	{7, 8, 5, 2, 2, 0, 1, 0, 7, 4, 9, 3, 7, 1, 6, 0, 2, 4, 9, 5, 5, 8, 3, 1, 8, 4}, // 4 pivots, 10 nodes, 13 edges
	{0, 1, 3, 4, 5, 4, 7, 6, 3, 2, 8, 2, 7, 8, 3, 1, 0, 6, 5, 0, 5, 3, 0, 8, 0, 2, 7, 4, 9, 6}, // 4 pivots, 10 nodes, 15 edges
	{6, 7, 0, 4, 1, 2, 3, 5, 2, 5, 3, 2, 3, 7, 6, 2, 0, 1, 4, 5, 0, 3, 6, 4, 1, 4}, // 4 pivots, 8 nodes, 13 edges
	{7, 4, 1, 0, 4, 6, 4, 3, 2, 5, 5, 3, 7, 5, 1, 6, 2, 0, 7, 1, 2, 3, 4, 0, 4, 5}, // 4 pivots, 8 nodes, 13 edges
	{3, 6, 0, 1, 0, 3, 7, 5, 3, 2, 3, 5, 6, 2, 1, 6, 1, 2, 0, 5, 4, 2, 7, 6, 7, 4}, // 4 pivots, 8 nodes, 13 edges
	{2, 4, 3, 4, 2, 0, 1, 7, 0, 5, 1, 6, 1, 0, 4, 5, 1, 3, 7, 5, 2, 7, 6, 4, 2, 3}, // 4 pivots, 8 nodes, 13 edges
	{0, 6, 7, 5, 1, 5, 3, 4, 0, 7, 2, 3, 0, 4, 2, 1, 7, 4, 0, 1, 2, 6}, // 4 pivots, 8 nodes, 11 edges
	{5, 8, 0, 4, 0, 2, 5, 4, 0, 8, 6, 1, 5, 2, 7, 9, 5, 1, 3, 2, 7, 1, 9, 4, 0, 1, 6, 4, 3, 1}, // 5 pivots, 10 nodes, 15 edges
}
